"""C16 - converter resolution is a pure function of the registrations made so far.

R16a invalidation pairing   R16b order invariant   R16c criteria reach the detector   R16d resolve order / memo keys
"""
import ast

from ..cfg import analysis, N, E
from ..lib import prov
from ..model import AnalysisError, call_attr, kwarg, unparse, walk_shallow, norm_stmt, names_in

REG_MUTATORS = {"insert", "append", "sort", "extend", "remove", "pop", "clear", "reverse"}


def registry_class(run):
    return run.repo.cls("utype.utils.base", "TypeRegistry")


def _reg_writes(fa, attr="_registry"):
    out = []
    for n in fa.cfg.nodes:
        if n.kind != "stmt":
            continue
        for c in fa.calls_at(n):
            if isinstance(c.func, ast.Attribute) and c.func.attr in REG_MUTATORS \
                    and unparse(c.func.value) == f"self.{attr}":
                out.append((n, c, c.func.attr))
        a = n.ast
        if isinstance(a, (ast.Assign, ast.AugAssign)):
            tg = a.targets if isinstance(a, ast.Assign) else [a.target]
            for t in tg:
                if unparse(t) == f"self.{attr}" or (isinstance(t, ast.Subscript) and unparse(t.value) == f"self.{attr}"):
                    out.append((n, a, "assign"))
    return out


def _cache_resets(fa):
    out = []
    for n in fa.cfg.nodes:
        if n.kind != "stmt":
            continue
        for c in fa.calls_at(n):
            if isinstance(c.func, ast.Attribute) and c.func.attr == "clear" and unparse(c.func.value) == "self._cache":
                out.append(n)
        a = n.ast
        if isinstance(a, ast.Assign) and any(unparse(t) == "self._cache" for t in a.targets):
            if isinstance(a.value, ast.Dict) and not a.value.keys or (
                    isinstance(a.value, ast.Call) and call_attr(a.value) == "dict" and not a.value.args):
                out.append(n)
    return out


def r16a(run, C):
    total = 0
    for f in [g for g in C.module.functions.values() if g.qualname.startswith(C.qualname + ".")]:
        if f.name == "__init__":
            continue
        fa = analysis(f)
        writes = _reg_writes(fa)
        resets = _cache_resets(fa)
        for n, c, kind in writes:
            total += 1
            reach = fa.cfg.reach_from_succ(n, kinds=(N,), avoid=resets)
            ok = fa.cfg.exit not in reach or n in resets
            # a reset *before* the write is not enough: a lookup between the two refills the memo from the old list
            run.check("R16a", f, f"registry write `{norm_stmt(n.ast)[:60]}` is paired with a reset of the resolve memo", ok,
                      construct=f"registry write without cache reset: {kind}",
                      message=f"`{norm_stmt(n.ast)}` changes the registration list but the paths from it to the function "
                              f"exit do not all reset self._cache afterwards",
                      necessity="a type resolved before the registration keeps its memoised converter: the new "
                                "registration is ignored for that type and everything already cached", node=n.ast)
    run.floor("R16a", "writes to the registration list", total, 1)


def r16b(run, C):
    f = run.repo.func("utype.utils.base", "TypeRegistry.register.decorator")
    fa = analysis(f)
    writes = _reg_writes(fa)
    ins = [(n, c) for n, c, k in writes if k == "insert"]
    sorts = [(n, c) for n, c, k in writes if k == "sort"]
    apps = [(n, c) for n, c, k in writes if k in ("append", "extend")]
    if ins and all(isinstance(c.args[0], ast.Constant) and c.args[0].value == 0 for n, c in ins) and not apps:
        # idiom A: insert at the front + unconditional stable sort by priority descending
        run.ob("R16b", f, "new registrations are inserted at the front (newest first)", True)
        ok_sort = False
        why = "no sort after the insert"
        for n, c in sorts:
            uncond = all(fa.cfg.dominates(i, n) for i, _ in ins) and not [
                b for b in fa.facts.branch_facts(n) if not any(fa.cfg.dominates(b, i) for i, _ in ins)]
            # every path from the insert to the exit passes the sort
            for i, _ in ins:
                if fa.cfg.exit in fa.cfg.reach_from_succ(i, kinds=(N,), avoid=[n]):
                    uncond = False
            key = kwarg(c, "key")
            rev = kwarg(c, "reverse")
            desc = False
            if isinstance(key, ast.Lambda):
                body = key.body
                if isinstance(body, ast.UnaryOp) and isinstance(body.op, ast.USub) and rev is None:
                    desc = True
                elif rev is not None and isinstance(rev, ast.Constant) and rev.value is True \
                        and not isinstance(body, ast.UnaryOp):
                    desc = True
                # the key must be the priority component: the same index as in the inserted tuple
                idx = None
                for sub in ast.walk(body):
                    if isinstance(sub, ast.Subscript) and isinstance(sub.slice, ast.Constant):
                        idx = sub.slice.value
                tup = ins[0][1].args[1] if len(ins[0][1].args) > 1 else None
                if isinstance(tup, ast.Tuple) and idx is not None and 0 <= idx < len(tup.elts):
                    if unparse(tup.elts[idx]) != "priority":
                        desc = False
                        why = "the sort key is not the priority component"
                else:
                    desc = False
            if not uncond:
                why = "the sort runs only under a condition (" + ", ".join(
                    f"{unparse(b.test)}={b.polarity}" for b in fa.facts.branch_facts(n)
                    if not any(fa.cfg.dominates(b, i) for i, _ in ins)) + ")"
            elif not desc:
                why = why if "component" in why else "the sort is not by priority descending"
            if uncond and desc:
                ok_sort = True
        run.check("R16b", f, "after every insertion the list is stably sorted by priority descending", ok_sort,
                  construct="priority order not re-established on every registration",
                  message=f"register(): {why}",
                  necessity="a later registration with priority 0 is inserted at the front and stays ahead of an "
                            "earlier registration with a higher priority: the lower priority converter wins", node=f.node)
    elif ins:
        # idiom B: insertion index found by scanning: before the first entry whose priority is <= the new one,
        # and *at the end* when there is none
        for n, c in ins:
            idx = c.args[0]
            ok = False
            why = "the insertion index is not a scan result"
            if isinstance(idx, ast.Name):
                defs = fa.rd.defs_of(n, idx.id)
                has_end = any(d is not fa.cfg.entry and d.kind == "stmt" and isinstance(d.ast, ast.Assign)
                              and "len(self._registry)" in unparse(d.ast.value) for d in defs)
                loop_defs = [d for d in defs if d.kind == "branch" and d.is_for]
                for_else = any(d.stmt.orelse for d in loop_defs)
                cmp_ok = False
                for d in loop_defs:
                    for x in walk_shallow(d.stmt):
                        if isinstance(x, ast.If) and any(isinstance(b, ast.Break) for b in x.body) \
                                and isinstance(x.test, ast.Compare) and len(x.test.ops) == 1:
                            l, op, r = unparse(x.test.left), x.test.ops[0], unparse(x.test.comparators[0])
                            if r == "priority" and isinstance(op, ast.LtE):
                                cmp_ok = True
                            if l == "priority" and isinstance(op, ast.GtE):
                                cmp_ok = True
                if not loop_defs:
                    why = "no scan loop defines the insertion index"
                elif not cmp_ok:
                    why = "the scan does not stop at the first entry with priority <= the new one"
                elif not (has_end or for_else):
                    why = ("when no existing entry has priority <= the new one the index is not len(registry): the new "
                           "entry is inserted before the last one instead of appended")
                else:
                    ok = True
            run.check("R16b", f, "scan-insert keeps priority order, newest first among equals, appending when lowest", ok,
                      construct="scan-insert idiom incomplete", message=f"register(): {why}",
                      necessity="a registration whose priority is below every existing one lands in front of a higher "
                                "priority entry: the lower-priority converter wins", node=c)
    else:
        raise AnalysisError("R16b: TypeRegistry.register uses an insertion idiom the checker does not know")


def r16c(run, C):
    f = run.repo.func("utype.utils.base", "TypeRegistry.register.detector")
    reg = run.repo.func("utype.utils.base", "TypeRegistry.register")
    fa = analysis(f)
    loads = {x.id for x in walk_shallow(f.node) if isinstance(x, ast.Name) and isinstance(x.ctx, ast.Load)}
    for crit in ("classes", "allow_subclasses", "metaclass", "attr"):
        run.check("R16c", f, f"criterion `{crit}` is consulted by the generated detector",
                  crit in loads and crit in reg.params,
                  construct=f"criterion {crit} ignored", message=f"the detector built by register() never reads `{crit}`",
                  necessity=f"registrations that differ only in `{crit}` match the same classes")
    # shape: subclass vs exact membership under allow_subclasses; metaclass by isinstance; attr by hasattr; each
    # failing criterion returns False
    src = f.node
    tests = {}
    for n in fa.cfg.nodes:
        if n.kind == "stmt" and isinstance(n.ast, ast.Return) and isinstance(n.ast.value, ast.Constant) \
                and n.ast.value.value is False:
            for a, p in fa.facts.atoms_at(n):
                tests.setdefault(unparse(a), set()).add(p)
    need = {
        "issubclass(_cls, classes)": False,
        "_cls not in classes": True,
        "isinstance(_cls, metaclass)": False,
    }
    cls_param = f.params[0] if f.params else "_cls"
    for t, pol in need.items():
        t2 = t.replace("_cls", cls_param)
        alt = None
        if t2.endswith("not in classes"):
            alt = (f"{cls_param} in classes", False)
        ok = pol in tests.get(t2, set()) or (alt is not None and alt[1] in tests.get(alt[0], set()))
        run.check("R16c", f, f"detector rejects (returns False) when `{t2}` is {pol}", ok,
                  construct=f"detector criterion {t2}", message=f"the detector does not return False on `{t2}`={pol}",
                  necessity="the matching rule differs from the registration's own criteria")
    sub_guard = any(("allow_subclasses", True) == (unparse(a), p) for n in fa.cfg.nodes if n.kind == "test"
                    and "issubclass" in unparse(n.ast) for a, p in fa.facts.atoms_at(n))
    run.check("R16c", f, "issubclass matching is used exactly when allow_subclasses is true", sub_guard,
              construct="allow_subclasses polarity", message="the issubclass test is not guarded by allow_subclasses",
              necessity="allow_subclasses=False registrations would also match subclasses (or the reverse)")
    attr_ok = any("hasattr" in t and False in pols for t, pols in tests.items()) or any(
        "hasattr" in unparse(n.ast) for n in fa.cfg.nodes if n.kind == "test")
    run.check("R16c", f, "attr criterion is tested with hasattr", attr_ok, construct="attr criterion",
              message="the detector never tests hasattr(_cls, attr)")
    # decorator registers (detector, f, priority)
    d = run.repo.func("utype.utils.base", "TypeRegistry.register.decorator")
    da = analysis(d)
    ins = [c for n, c, k in _reg_writes(da) if k in ("insert", "append")]
    ok = bool(ins) and all(isinstance(c.args[-1], ast.Tuple) and
                           [unparse(e) for e in c.args[-1].elts][:1] == ["detector"] and
                           "priority" in [unparse(e) for e in c.args[-1].elts] for c in ins)
    run.check("R16c", d, "the registered entry carries the detector, the function and the priority", ok,
              construct="registered entry shape", message="register() does not store (detector, f, priority)")


def r16d(run, C):
    f = run.repo.func("utype.utils.base", "TypeRegistry.resolve")
    fa = analysis(f)
    t = f.params[1] if len(f.params) > 1 else "t"
    def _is_registry(n):
        if unparse(n.ast) == "self._registry":
            return True
        if isinstance(n.ast, ast.Name) and n.ast.id in fa.rd.locals:
            os_ = prov(fa).of_name(n, n.ast.id)
            return bool(os_) and all(o.kind == "attr" and o.text == "self._registry" for o in os_)
        return False
    loops = [n for n in fa.cfg.nodes if n.kind == "iter" and _is_registry(n)]
    run.check("R16d", f, "resolve scans self._registry in list order", len(loops) == 1,
              construct="resolve does not scan the registry in order",
              message="TypeRegistry.resolve has no `for ... in self._registry` scan (or iterates a reordered copy)",
              necessity="the first match in priority/recency order must win")
    if len(loops) != 1:
        return
    lp = loops[0]
    # returns inside the loop: the matched entry's function, under a positive detector(t) fact
    rets = [n for n in fa.cfg.nodes if n.kind == "stmt" and isinstance(n.ast, ast.Return)
            and any(x is n.ast for x in walk_shallow(lp.stmt))]
    run.floor("R16d", "returns inside the registry scan", len(rets), 1)
    tgt = lp.stmt.target
    names = [e.id for e in tgt.elts] if isinstance(tgt, ast.Tuple) else []
    for r in rets:
        facts = {(unparse(a), p) for a, p in fa.facts.atoms_at(r)}
        det_ok = any(a.endswith(f"({t})") and p and a.split("(")[0] in names for a, p in facts)
        val_ok = isinstance(r.ast.value, ast.Name) and r.ast.value.id in names
        run.check("R16d", f, "the scan returns the function of the first entry whose detector accepts the type",
                  det_ok and val_ok, construct="scan return", message=f"`{norm_stmt(r.ast)}` is not guarded by the "
                  f"entry's detector on `{t}` or returns something else than the entry's function",
                  necessity="a non-matching registration's converter is used", node=r.ast)
    # memo: read guarded by self.cache, keyed by t; write keyed by t with the matched function
    for n in fa.cfg.nodes:
        if n.kind == "stmt" and isinstance(n.ast, ast.Assign):
            for tg in n.ast.targets:
                if isinstance(tg, ast.Subscript) and unparse(tg.value) == "self._cache":
                    in_scan = any(x is n.ast for x in walk_shallow(lp.stmt))
                    ok = unparse(tg.slice) == t and isinstance(n.ast.value, ast.Name) and n.ast.value.id in names \
                        and any(unparse(a) == "self.cache" and p for a, p in fa.facts.atoms_at(n)) and in_scan \
                        and all(d.kind == "branch" and d.is_for for d in fa.rd.defs_of(n, n.ast.value.id))
                    run.check("R16d", f, "the memo is filled for the resolved type with the matched function, only "
                                         "when caching is enabled", ok, construct="memo write",
                              message=f"`{norm_stmt(n.ast)}` memoises under a different key/value, without the "
                                      f"cache flag, or something else than the entry matched by this registry's own scan",
                              necessity="another type's converter is served from the memo; an answer taken from the base "
                                        "registry and memoised here is not invalidated by a later registration in the base",
                              node=n.ast)
        if n.kind == "stmt" and isinstance(n.ast, ast.Return) and "self._cache" in unparse(n.ast):
            v = n.ast.value
            ok = isinstance(v, ast.Subscript) and unparse(v.slice) == t and any(
                unparse(a) == f"{t} in self._cache" and p for a, p in fa.facts.atoms_at(n))
            run.check("R16d", f, "the memo is read for the resolved type only", ok, construct="memo read",
                      message=f"`{norm_stmt(n.ast)}` reads the memo under a different key", node=n.ast)
        if n.kind == "stmt" and isinstance(n.ast, ast.Assign) and isinstance(n.ast.value, ast.Call) \
                and unparse(n.ast.value.func) == "self._cache.get":
            # idiom: cached = self._cache.get(t); if cached is not None: return cached   (one atomic read)
            c = n.ast.value
            var = unparse(n.ast.targets[0])
            ok = bool(c.args) and unparse(c.args[0]) == t and (len(c.args) == 1 or unparse(c.args[1]) == "None")
            rets_v = [m for m in fa.cfg.nodes if m.kind == "stmt" and isinstance(m.ast, ast.Return)
                      and unparse(m.ast.value) == var and fa.cfg.dominates(n, m)]
            ok = ok and bool(rets_v) and all(any(
                (unparse(a) == f"{var} is not None" and p) or (unparse(a) == f"{var} is None" and not p)
                or (unparse(a) == var and p) for a, p in fa.facts.atoms_at(m)) for m in rets_v)
            run.check("R16d", f, "the memo is read for the resolved type only (get-then-test)", ok,
                      construct="memo read", message=f"`{norm_stmt(n.ast)}` reads the memo under a different key or "
                      f"returns it without testing the hit", node=n.ast)
    # order: shortcut test dominates the memo read, which dominates the scan; base fallback after the scan
    sc = [n for n in fa.cfg.nodes if n.kind == "test" and "self.shortcut" in unparse(n.ast)]
    memo = [n for n in fa.cfg.nodes if n.kind in ("test", "stmt") and n.ast is not None and "self._cache" in unparse(n.ast)
            and not (isinstance(n.ast, ast.Assign) and isinstance(n.ast.targets[0], ast.Subscript))]
    memo.sort(key=lambda x: x.id)
    base = [n for n in fa.cfg.nodes if n.kind in ("test", "stmt") and "self.base" in unparse(n.ast)]
    # the memo read lies before the scan (never after it) on every path that performs it
    ok = bool(sc and memo and base) and fa.cfg.dominates(sc[0], memo[0]) and fa.cfg.can_reach(memo[0], lp, kinds=(N,)) \
        and not fa.cfg.can_reach(lp, memo[0], kinds=(N,)) and all(fa.cfg.dominates(lp, b) for b in base)
    run.check("R16d", f, "resolve consults shortcut, memo, the list, the base registry, the default - in that order", ok,
              construct="resolve order", message="TypeRegistry.resolve does not consult shortcut -> memo -> scan -> "
              "base -> default in this order", necessity="a base registration could shadow an own registration")
    memo_guard = any(unparse(a) == "self.cache" and p for a, p in fa.facts.atoms_at(memo[0])) or (
        memo and memo[0].kind == "test" and "self.cache" in unparse(memo[0].ast)) if memo else False
    run.check("R16d", f, "the memo is consulted only when caching is enabled", bool(memo_guard), construct="memo read flag",
              message="TypeRegistry.resolve reads the memo without testing self.cache")
    # the two registries are created with the documented settings
    for mod, owner in (("utype.utils.transform", "TypeTransformer"), ("utype.utils.encode", None)):
        m = run.repo.module(mod)
        found = False
        for sub in ast.walk(m.tree):
            if isinstance(sub, ast.Call) and call_attr(sub) == "TypeRegistry":
                found = True
        run.check("R16d", f"{mod}", "a TypeRegistry instance is created here", found, construct="registry instance",
                  message=f"{mod} no longer creates a TypeRegistry")


def r16e(run):
    """the converter that runs is the one the registry resolved"""
    T = run.repo.cls("utype.utils.transform", "TypeTransformer")
    f = T.methods["__call__"]
    fa = analysis(f)
    res = [(n, c) for n, c in fa.all_calls() if call_attr(c) in ("resolver_transformer", "resolve")]
    run.check("R16e", f, "the dispatcher asks the registry for the converter", len(res) == 1,
              construct="dispatcher resolution", message="TypeTransformer.__call__ does not resolve through the registry exactly once")
    if len(res) != 1:
        return
    rn = res[0][0]
    var = rn.ast.targets[0].id if isinstance(rn.ast, ast.Assign) and isinstance(rn.ast.targets[0], ast.Name) else None
    disp = [(n, c) for n, c in fa.all_calls() if isinstance(c.func, ast.Name) and c.func.id == var]
    ok = bool(var) and bool(disp) and all(set(fa.rd.defs_of(n, var)) == {rn} for n, c in disp)
    run.check("R16e", f, "the function applied is exactly the resolution result", ok,
              construct="dispatcher applies another function",
              message=f"TypeTransformer.__call__: the callee `{var}` of the final dispatch has definitions other than "
                      f"the registry's answer (it is re-bound between resolution and application)",
              necessity="the converter used is no longer 'the matching registration with the highest priority': a user "
                        "registration is silently replaced", node=disp[0][1] if disp else None)
    g = T.methods["resolver_transformer"]
    ok = any(isinstance(c, ast.Call) and call_attr(c) == "resolve" and "registry" in unparse(c.func)
             for c in walk_shallow(g.node))
    run.check("R16e", g, "resolver_transformer delegates to the registry", ok, construct="resolver_transformer",
              message="TypeTransformer.resolver_transformer does not return registry.resolve(t)")
    a = T.methods["apply"]
    aa = analysis(a)
    calls = [(n, c) for n, c in aa.all_calls() if isinstance(c.func, ast.Name) and c.func.id == "func"]
    ok = bool(calls) and all(aa.rd.is_param_only(n, "func") for n, c in calls)
    run.check("R16e", a, "apply() runs the converter it was given", ok, construct="apply rebinds func",
              message="TypeTransformer.apply re-binds `func` before calling it")


def r16f(run):
    """the converter is looked up when the value is converted: a conversion that is handed a converter resolved when the
    class / field was *declared* (an attribute filled from resolver_transformer at set-up time) keeps using the
    registration that matched then"""
    from . import c04
    # attributes that hold declaration-time resolutions: `<x>.<attr> = ...resolver_transformer(...)` / a tuple built from it
    held = {}
    for f in run.repo.all_functions():
        if not f.module.name.startswith("utype.parser") and f.module.name != "utype.schema":
            continue
        fa = analysis(f)
        resolved_locals = set()
        for n in fa.cfg.nodes:
            if n.kind == "stmt" and isinstance(n.ast, ast.Assign) and any(
                    isinstance(c, ast.Call) and call_attr(c) in ("resolver_transformer", "resolve") for c in ast.walk(n.ast.value)):
                for t in n.ast.targets:
                    if isinstance(t, ast.Name):
                        resolved_locals.add(t.id)
                    elif isinstance(t, ast.Attribute):
                        held.setdefault(t.attr, []).append(f)
        # containers of resolved locals: lst.append(<resolved local>) ... <x>.<attr> = tuple(lst)
        grown = set(resolved_locals)
        changed = True
        while changed:
            changed = False
            for n, c in fa.all_calls():
                if call_attr(c) in ("append", "extend", "add") and isinstance(c.func.value, ast.Name) and c.args \
                        and names_in(c.args[0]) & grown and c.func.value.id not in grown:
                    grown.add(c.func.value.id)
                    changed = True
            for n in fa.cfg.nodes:
                if n.kind == "stmt" and isinstance(n.ast, ast.Assign) and names_in(n.ast.value) & grown:
                    for t in n.ast.targets:
                        if isinstance(t, ast.Name) and t.id not in grown:
                            grown.add(t.id)
                            changed = True
                        elif isinstance(t, ast.Attribute) and f not in held.get(t.attr, []):
                            held.setdefault(t.attr, []).append(f)
    run.notes.append(f"R16f: attributes filled with declaration-time resolutions: {sorted(held)}")
    sites = 0
    for f in c04.in_scope_functions(run):
        fa = analysis(f)
        for n, c in fa.all_calls():
            fk = kwarg(c, "func")
            if call_attr(c) != "apply" or fk is None or (isinstance(fk, ast.Constant) and fk.value is None):
                continue
            sites += 1
            # where does the handed converter come from
            srcs = set()

            def attrs_of(e, node, depth=0):
                for x in ast.walk(e):
                    if isinstance(x, ast.Attribute) and x.attr in held:
                        srcs.add(x.attr)
                if depth < 4:
                    for x in ast.walk(e):
                        if isinstance(x, ast.Name) and x.id in fa.rd.locals:
                            for o in prov(fa).of_name(node, x.id):
                                if o.node is not None and o.at is not None:
                                    attrs_of(o.node, o.at, depth + 1)
                                if o.kind in ("iter", "iter-unpack") and any(h in o.text for h in held):
                                    srcs.update(h for h in held if h in o.text)
            attrs_of(fk, n)
            run.check("R16f", f, f"`{unparse(c)[:60]}` looks the converter up at conversion time", not srcs,
                      construct=f"declaration-time converter {'/'.join(sorted(srcs))} used by {f.name}",
                      message=f"{f.qualname}: `{unparse(c)[:80]}` is handed `{unparse(fk)}`, which comes from "
                              f"{sorted(srcs)}: resolved once when the type was declared "
                              f"({', '.join(sorted({g.qualname for a in srcs for g in held[a]}))})",
                      necessity="a registration made after the declaration is ignored for these conversions: "
                                "List[Money] keeps converting its elements with the converter that matched when the field "
                                "was declared", node=c)
    run.floor("R16f", "conversions handed a converter", sites, 3)


def r16g(run):
    """the memo is a dict keyed by the type object: two distinct types must never be equal keys.  Classes compare by
    identity unless a metaclass overrides __eq__ / __hash__ - the library's metaclasses must not"""
    metas = []
    for m in run.repo.modules.values():
        for C in m.classes.values():
            bases = {b.split(".")[-1] for b in C.base_names}
            if "type" in bases or bases & {"LogicalType", "ABCMeta", "LogicalMeta"} or C.name.endswith("Meta"):
                metas.append(C)
    run.floor("R16g", "metaclasses of the library", len(metas), 2)
    for C in metas:
        over = sorted(n for n in ("__eq__", "__hash__") if n in C.methods or n in C.assigns)
        run.check("R16g", C.ref, f"types created by {C.name} compare by identity", not over,
                  construct=f"metaclass {C.name} overrides {'/'.join(over)}",
                  message=f"metaclass {C.name} defines {over}: two distinct types it creates can be equal dictionary keys, so "
                          f"they share one entry of the registry's memo (a dict keyed by the type)",
                  necessity="the second of two equal-but-distinct types gets the converter memoised for the first without "
                            "its own detectors (attribute, detector function) being consulted")


def check(run):
    run.rules_run += ["R16a", "R16b", "R16c", "R16d", "R16e", "R16f", "R16g"]
    run.explain("C16: (R16a) every write to the registration list is followed on all paths by a reset of the resolve "
                "memo; (R16b) after each insertion at the front the list is unconditionally stably sorted by the "
                "priority component, descending; (R16c) every registration criterion reaches the generated detector "
                "with the documented polarity; (R16d) resolve consults shortcut, memo (keyed by the type), the list "
                "in order, base, default.")
    C = registry_class(run)
    run.rule(r16a, run, C)
    run.rule(r16b, run, C)
    run.rule(r16c, run, C)
    run.rule(r16d, run, C)
    run.rule(r16e, run)
    run.rule(r16f, run)
    run.rule(r16g, run)
