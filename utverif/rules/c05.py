"""C05 - data-class parsing implements the declared field contract (enforcement skeleton only).

R05a defaults are copied   R05b no-input gate before parse_value   R05c required/absence discipline
R05d parse_addition is an ordered four-way switch   R05e count checks, no_output gates, option precedence in get_default
"""
import ast
from typing import Dict, List, Set, Tuple

from ..cfg import analysis, FuncAnalysis, Node, N, E, is_handle_error_call
from ..lib import prov, exc_class_of_ctor, opt_attr, is_convert_call
from ..model import AnalysisError, call_attr, kwarg, unparse, walk_shallow, norm_stmt, names_in
from . import c06


def facts(fa, n) -> Set[Tuple[str, bool]]:
    return {(unparse(a), p) for a, p in fa.facts.atoms_at(n)}


def mfacts(fa, n):
    """branch facts that are method calls on a local receiver: (method, receiver, [argument texts], polarity) -
    the receiver (the field local) is matched by identity of text with the call under test, never by its name"""
    out = []
    for a, p in fa.facts.atoms_at(n):
        if isinstance(a, ast.Call) and isinstance(a.func, ast.Attribute):
            out.append((a.func.attr, unparse(a.func.value), [unparse(x) for x in a.args], p))
    return out


def result_names(fa) -> Set[str]:
    """locals the function returns (alone or inside a returned tuple / call): its result containers"""
    out = set()
    for n in fa.cfg.nodes:
        if n.kind == "stmt" and isinstance(n.ast, ast.Return) and n.ast.value is not None and fa.cfg.is_live(n):
            out |= {x.id for x in ast.walk(n.ast.value) if isinstance(x, ast.Name) and x.id in fa.rd.locals}
    return out


class _Unprovided:
    """the library's `unprovided` sentinel in the modelled domain: callable test, falsy"""
    def __call__(self, v):
        return v is self

    def __bool__(self):
        return False

    def __repr__(self):
        return "unprovided"


def get_default_table(run):
    """ParserField.get_default evaluated over its finite decision domain (nothing of the library runs: the checker's own
    interpreter, evalfn.py, walks the function's syntax tree).  -> list of (inputs, result) with results
    U / ('copy', 'forced'|'declared'|'factory') / anything else as found"""
    from types import SimpleNamespace
    from ..evalfn import Evaluator
    g = run.repo.func("utype.parser.field", "ParserField.get_default")
    U = _Unprovided()
    import itertools
    import re as _re
    extra = []          # attributes the function reads that the documented rule does not know: every value is tried
    while True:
        rows = []
        try:
            for no_default in (False, True):
                for defer in (False, True, None):
                    for f_defer in (False, True):
                        for o_defer in (False, True):
                            for forced in (U, "forced"):
                                for declared in (U, "declared"):
                                    for factory in (None, "factory"):
                                        for vals in itertools.product((False, True), repeat=len(extra)):
                                            self_ns = SimpleNamespace(defer_default=f_defer, default=declared, name="field",
                                                                      default_factory=(lambda: "factory") if factory else None)
                                            opts = SimpleNamespace(no_default=no_default, defer_default=o_defer,
                                                                   force_default=forced)
                                            for (owner, attr), v in zip(extra, vals):
                                                setattr(self_ns if owner == "self" else opts, attr, v)
                                            env = {"self": self_ns, "options": opts, "defer": defer, "unprovided": U,
                                                   "copy_value": lambda v: ("copy", v), "repr": repr}
                                            for p_ in g.params:
                                                env.setdefault(p_, None)
                                            got = Evaluator(g.node, env, {}).run()
                                            rows.append(((no_default, defer, f_defer, o_defer, forced, declared, factory)
                                                         + tuple(f"{o}.{a_}={v}" for (o, a_), v in zip(extra, vals)), got, U))
            break
        except AnalysisError as e:
            m = _re.search(r"attribute (self|options)\.(\w+) is outside the modelled domain", str(e))
            if not m or len(extra) >= 3 or (m.group(1), m.group(2)) in extra:
                raise
            extra.append((m.group(1), m.group(2)))
    return g, rows


def r05a(run, rule="R05a"):
    # decided over get_default's finite decision domain (see get_default_table): whatever default is handed out went
    # through copy_value - however the function is laid out
    f, rows = get_default_table(run)
    vals = 0
    bad = {}
    for inputs, got, U in rows:
        if got is U:
            continue
        vals += 1
        if not (isinstance(got, tuple) and len(got) == 2 and got[0] == "copy"):
            bad.setdefault(repr(got), inputs)
    run.check(rule, f, "every default get_default hands out is a copy_value(...) of it", not bad,
              construct="default returned without copy_value",
              message="ParserField.get_default returns the default object itself: " + "; ".join(
                  f"{k} for (no_default, defer, field.defer_default, options.defer_default, force_default, default, factory) = {v}"
                  for k, v in sorted(bad.items())[:2]),
              necessity="two instances share one mutable default: changing one changes the other and the class default")
    run.floor(rule, "input shapes for which get_default hands out a default", vals, 20)
    # copy_value itself: decided as a table over default shapes (round 8; replaces the shape rules "recurses under a multi()
    # test and under a dict test" / "returns its argument only when neither": a guard-clause layout with a cached multi()
    # answer is the same function)
    from . import helper_table as _ht
    _ht.r_copy(run, rid=rule)


def r05b(run):
    pd, A, B = c06.siblings(run)
    # the two lookup strategies: a no-input field never takes the given value, only its default (decision table)
    c06.emit_table(run, "R06f", A, B, report_as="R05b")
    pp = run.repo.func("utype.parser.func", "FunctionParser.parse_params")
    total = 0
    for f in (pp,):
        fa = analysis(f)
        for n, c in fa.all_calls():
            if call_attr(c) != "parse_value":
                continue
            total += 1
            arg = unparse(c.args[0]) if c.args else ""
            recv = unparse(c.func.value)
            ok = any(m == "is_no_input" and r == recv and a[:1] == [arg] and not p for m, r, a, p in mfacts(fa, n))
            run.check("R05b", f, f"`{unparse(c)[:50]}` runs only when is_no_input({arg}) is false", ok,
                      construct="parse_value without the no-input gate",
                      message=f"{f.qualname}: `{unparse(c)}` is not dominated by the false branch of "
                              f"field.is_no_input({arg}, ...)",
                      necessity="a no_input field (or a field excluded by mode) takes its value from the input", node=c)
    run.floor("R05b", "parse_value calls in parse_params", total, 1)

def r05c(run):
    pd, A, B = c06.siblings(run)
    c06.emit_table(run, "R05c", A, B)         # the two lookup strategies: decided on their decision table
    pp = run.repo.func("utype.parser.func", "FunctionParser.parse_params")
    total = 0
    for f in (pp,):
        fa = analysis(f)
        res = result_names(fa)
        for n, c in fa.all_calls():
            if is_handle_error_call(c) and c.args and exc_class_of_ctor(c.args[0]) == "AbsenceError":
                total += 1
                ok = any(m == "is_required" and p for m, r, a, p in mfacts(fa, n))
                run.check("R05c", f, "AbsenceError is reported exactly for fields whose is_required() is true", ok,
                          construct="AbsenceError without is_required",
                          message=f"{f.qualname}: AbsenceError is reported without consulting field.is_required()",
                          necessity="optional fields (or ignore_required) would raise absence errors", node=c)
                # nothing is stored for that field afterwards in this iteration
                loop_heads = [m for m in fa.cfg.nodes if m.kind == "iter"]
                reg = fa.cfg.reach_from_succ(n, kinds=(N,), avoid=loop_heads)
                stores = [m for m in reg if m.kind == "stmt" and isinstance(m.ast, ast.Assign)
                          and isinstance(m.ast.targets[0], ast.Subscript)
                          and unparse(m.ast.targets[0].value) in res]
                stores += [m for m in reg if m.kind == "stmt" and any(
                    call_attr(x) == "append" and unparse(x.func.value) in res for x in fa.calls_at(m))]
                run.check("R05c", f, "after an absence error nothing is stored for the field", not stores,
                          construct="store after AbsenceError", message=f"{f.qualname}: a value is stored for a field "
                          f"after its AbsenceError was recorded", necessity="with collected errors a default silently "
                          "replaces the missing required field in the partial result", node=c)
        # defaults for missing fields only when not required
        for n in fa.cfg.nodes:
            if n.kind == "stmt" and isinstance(n.ast, ast.Assign) and isinstance(n.ast.value, ast.Call) \
                    and call_attr(n.ast.value) == "get_default":
                mf = mfacts(fa, n)
                if any(m == "is_no_input" and p for m, r, a, p in mf):
                    continue
                ok = any(m == "is_required" and not p for m, r, a, p in mf)
                run.check("R05c", f, "the default of a missing field is taken only when the field is not required", ok,
                          construct="default for a required field", message=f"{f.qualname}: `{norm_stmt(n.ast)}` is not "
                          f"guarded by is_required() being false", necessity="a missing required field silently takes "
                          "a default instead of raising", node=n.ast)
    run.floor("R05c", "AbsenceError sites in parse_params", total, 1)
    # is_required honours ignore_required, always_no_input and the mode
    s = c06.predicate_summary(run, "is_required", True)
    ok = "ignore_required" in s and "truthy" not in s["ignore_required"]
    run.check("R05c", run.repo.func("utype.parser.field", "ParserField.is_required"),
              "is_required() is false whenever options.ignore_required is set", ok,
              construct="is_required ignores ignore_required",
              message="ParserField.is_required can return a truthy value under options.ignore_required",
              necessity="ignore_required would not make fields optional")
    g = run.repo.func("utype.parser.field", "ParserField.is_required")
    ga = analysis(g)
    for n in ga.cfg.nodes:
        if n.kind == "stmt" and isinstance(n.ast, ast.Return) and not (
                isinstance(n.ast.value, ast.Constant) and n.ast.value.value is False):
            fs = facts(ga, n)
            ok = any(t.startswith("self.always_no_input(") and not p for t, p in fs)
            run.check("R05c", g, f"`{norm_stmt(n.ast)}`: a field that never takes input is not required", ok,
                      construct="is_required ignores always_no_input",
                      message="is_required can be true for a field that never takes input",
                      necessity="a no_input field would raise AbsenceError although it cannot be provided", node=n.ast)


def r05d(run):
    f = run.repo.func("utype.parser.base", "BaseParser.parse_addition")
    fa = analysis(f)
    # the policy expression is found by role: the operand of the `... is False` test that reads `.addition`
    A = "context.options.addition"
    for n in fa.cfg.nodes:
        if n.kind == "test":
            for a, p in fa.facts.atoms_at(n) + [(n.ast, True)]:
                if isinstance(a, ast.Compare) and len(a.ops) == 1 and isinstance(a.ops[0], ast.Is) \
                        and isinstance(a.comparators[0], ast.Constant) and a.comparators[0].value is False \
                        and opt_attr(a.left) == "addition":
                    A = unparse(a.left)
    exceed = [n for n, c in fa.all_calls() if is_handle_error_call(c) and c.args
              and exc_class_of_ctor(c.args[0]) == "ExceedError"]
    run.check("R05d", f, "addition=False reports an ExceedError", len(exceed) == 1 and fa.cfg.is_live(exceed[0]),
              construct="no ExceedError", message="parse_addition never reports ExceedError")
    if len(exceed) == 1:
        fs = facts(fa, exceed[0])
        ok = (f"{A} is False", True) in fs and (A, True) not in fs and not any(
            t == f"not {A}" and not p for t, p in fs)
        reach_ok = fa.cfg.is_live(exceed[0]) and not any((t == A and p is False) for t, p in fs)
        run.check("R05d", f, "the `is False` test precedes the falsy test (the specific guard first)", ok and reach_ok,
                  construct="addition is False unreachable", message="parse_addition tests `not addition` before "
                  "`addition is False`: the ExceedError branch is dead", necessity="unknown keys are silently dropped "
                  "instead of rejected under addition=False", node=exceed[0].ast)
        nxt = [m for m in fa.cfg.reach_from_succ(exceed[0], kinds=(N,)) if m.kind == "stmt" and isinstance(m.ast, ast.Return)]
        run.check("R05d", f, "after the ExceedError the key is dropped (sentinel)", bool(nxt) and all(
            unparse(m.ast.value) == "unprovided" for m in nxt if fa.cfg.dominates(exceed[0], m)),
            construct="ExceedError then keep", message="parse_addition keeps the key after reporting ExceedError")
    drops = keeps = 0
    for n in fa.cfg.nodes:
        if n.kind != "stmt" or not isinstance(n.ast, ast.Return) or not fa.cfg.is_live(n):
            continue
        fs = facts(fa, n)
        v = unparse(n.ast.value)
        if v == "unprovided" and (A, False) in fs and (f"{A} is False", False) in fs:
            drops += 1
        if v != "unprovided" and (A, True) in fs:
            keeps += 1
        if v != "unprovided":
            ok = (A, True) in fs and (f"{A} is False", False) in fs
            run.check("R05d", f, f"`{norm_stmt(n.ast)}` (key kept) only when addition is truthy", ok,
                      construct="key kept without addition", message=f"parse_addition: `{norm_stmt(n.ast)}` keeps an "
                      f"unknown key although addition is not truthy", necessity="unknown keys leak into the result "
                      "under the default policy (drop)", node=n.ast)
    run.check("R05d", f, "a falsy (None) addition drops the key, a truthy one keeps it", drops >= 1 and keeps >= 1,
              construct="addition switch incomplete", message=f"parse_addition: drop returns {drops}, keep returns {keeps}")
    conv = [(n, c) for n, c in fa.all_calls() if is_convert_call(fa, n, c)]
    def typed(n, c):
        # the conversion target is a local (the role `addition_type` plays) that is known to be truthy at the call
        t = c.args[1] if len(c.args) >= 2 else kwarg(c, "t")
        if not isinstance(t, (ast.Name, ast.Attribute)):
            return False
        tx = unparse(t)
        fs_ = facts(fa, n)
        return (f"not {tx}", False) in fs_ or (tx, True) in fs_
    ok = bool(conv) and all(typed(n, c) for n, c in conv)
    run.check("R05d", f, "a declared addition type converts the value", ok, construct="addition type unused",
              message="parse_addition does not convert with the declared addition type")
    ex = [n for n in fa.cfg.nodes if n.kind == "stmt" and isinstance(n.ast, ast.Return)
          and ("key in self.exclude_vars", True) in facts(fa, n) and unparse(n.ast.value) == "unprovided"]
    run.check("R05d", f, "excluded variable names are never carried as additions", bool(ex), construct="exclude_vars",
              message="parse_addition no longer drops keys named like excluded class attributes")


def r05e(run):
    # no_output gates
    S = run.repo.cls("utype.schema", "Schema")
    for m in ("__field_setter__", "__coerce_property__"):
        f = S.methods.get(m)
        if f is None:
            raise AnalysisError(f"Schema.{m} not found")
        fa = analysis(f)
        n_st = 0
        for n, c in fa.all_calls():
            if isinstance(c.func, ast.Attribute) and c.func.attr == "__setitem__" and isinstance(c.func.value, ast.Call) \
                    and call_attr(c.func.value) == "super":
                n_st += 1
                ok = any(m_ == "is_no_output" and not p for m_, r_, a_, p in mfacts(fa, n))
                run.check("R05e", f, f"`{unparse(c)[:50]}` keeps a value in the mapping only when is_no_output is false", ok,
                          construct="mapping store without no_output gate", message=f"Schema.{m}: `{unparse(c)}` is not "
                          f"guarded by field.is_no_output(...) being false", necessity="no_output fields appear in the "
                          "mapping / its JSON output", node=c)
        run.floor("R05e", f"mapping stores in Schema.{m}", n_st, 1)
    f = run.repo.func("utype.parser.cls", "ClassParser.set_attributes")
    fa = analysis(f)
    vparam = f.params[1]
    pops = [(n, c) for n, c in fa.all_calls() if call_attr(c) == "pop" and unparse(c.func.value) == vparam]
    ok = bool(pops) and all(any(m_ == "is_no_output" and p for m_, r_, a_, p in mfacts(fa, n)) for n, c in pops)
    run.check("R05e", f, "set_attributes removes no_output fields from the mapping values", ok,
              construct="set_attributes no_output", message="set_attributes no longer pops no_output fields from the "
              "values that become the mapping", necessity="no_output fields would be part of the mapping view")
    sets = [n for n in fa.cfg.nodes if n.kind == "stmt" and isinstance(n.ast, ast.Assign)
            and "__dict__" in unparse(n.ast.targets[0])]
    run.check("R05e", f, "set_attributes stores every parsed value under its attribute name", bool(sets),
              construct="set_attributes store", message="set_attributes no longer stores into instance.__dict__")
    # get_default as a decision table: evaluated over (no_default, defer, field / options defer_default, force_default,
    # declared default, factory) and compared with the documented rule
    g, rows = get_default_table(run)
    wrong = {}
    for inputs, got, U in rows:
        no_default, defer, f_defer, o_defer, forced, declared, factory = inputs[:7]
        if no_default:
            want, clause = U, "no_default suppresses every default"
        elif isinstance(defer, bool) and bool(f_defer or o_defer) is not defer:
            want, clause = U, "a deferred default is withheld at parse time and an immediate one on access"
        elif forced is not U:
            want, clause = ("copy", "forced"), "force_default comes first"
        elif declared is not U:
            want, clause = ("copy", "declared"), "the declared default comes before the factory"
        elif factory:
            want, clause = ("copy", "factory"), "the factory is used when nothing else is declared"
        else:
            want, clause = U, "no default at all"
        if got != want and not (got is U and want is U):
            wrong.setdefault(clause, (inputs, got, want))
    for clause in ("no_default suppresses every default",
                   "a deferred default is withheld at parse time and an immediate one on access",
                   "force_default comes first", "the declared default comes before the factory",
                   "the factory is used when nothing else is declared", "no default at all"):
        w = wrong.get(clause)
        run.check("R05e", g, f"get_default: {clause}", w is None, construct=f"get_default: {clause}",
                  message=f"ParserField.get_default: {clause} - but for (no_default, defer, field.defer_default, "
                          f"options.defer_default, force_default, default, factory) = {w[0] if w else ''} it returns "
                          f"{w[1] if w else ''!r} instead of {w[2] if w else ''!r}",
                  necessity="defaults are filled (or withheld) against the documented option precedence")
    # alias lookup order in _get_field_from
    h = run.repo.func("utype.parser.base", "BaseParser._get_field_from")
    ha = analysis(h)
    rets = [n for n in ha.cfg.nodes if n.kind == "stmt" and isinstance(n.ast, ast.Return) and ha.cfg.is_live(n)]
    direct = [n for n in rets if ("key in fields", True) in facts(ha, n)]
    alias = [n for n in rets if ("key in self.field_alias_map", True) in facts(ha, n)]
    ci = [n for n in rets if any("case_insensitive_names" in t and p for t, p in facts(ha, n))]
    ok = bool(direct and alias and ci) and ("key in fields", False) in facts(ha, alias[0]) \
        and ("key in self.field_alias_map", False) in facts(ha, ci[0])
    run.check("R05e", h, "field lookup: own name, then alias map, then the case-insensitive fallback", ok,
              construct="field lookup order", message="_get_field_from no longer looks up name -> alias -> lower-case")
    ok = bool(ci) and any("islower()" in t and not p for t, p in facts(ha, ci[0]))
    run.check("R05e", h, "the case-insensitive fallback only lower-cases keys that are not lower-case already "
                         "(terminates)", ok, construct="case-insensitive recursion", message="_get_field_from recurses "
              "with key.lower() without the not-islower guard", necessity="unbounded recursion on unknown keys")


def r05f(run):
    """a field's own alias_from overrides the options' alias_from_generator"""
    f = run.repo.func("utype.parser.field", "Field.get_alias_from")
    fa = analysis(f)
    if "generator" not in f.params:
        raise AnalysisError("Field.get_alias_from has no `generator` parameter")
    P = prov(fa)

    def from_generator(n, e, depth=0) -> bool:
        if depth > 4:
            return False
        if isinstance(e, ast.Name):
            if e.id == "generator" and fa.rd.is_param_only(n, "generator"):
                return True
            for o in P.of_name(n, e.id):
                if o.kind == "param" and o.text == "generator":
                    return True
                if o.kind in ("iter", "iter-unpack", "sub") and o.node is not None:
                    src = o.node if o.kind != "sub" else o.node.value
                    if any(isinstance(x, ast.Name) and x.id == "generator" for x in ast.walk(src)):
                        return True
        elif isinstance(e, ast.AST):
            return any(isinstance(x, ast.Name) and from_generator(n, x, depth + 1) for x in ast.walk(e) if x is not e)
        return False

    uses = 0
    for n, c in fa.all_calls():
        if call_attr(c) in ("extend", "append", "update", "add") and isinstance(c.func, ast.Attribute) and c.args \
                and from_generator(n, c.args[0]):
            uses += 1
            fs = facts(fa, n)
            ok = ("self.alias_from", False) in fs
            run.check("R05f", f, "generated aliases are added only when the field declares no alias_from of its own", ok,
                      construct="alias generator applied on top of the field's own alias_from",
                      message=f"`{unparse(c)[:60]}` adds the generator's aliases without the field's alias_from being empty",
                      necessity="docs (options.md): the generator applies to fields without their own alias_from. A "
                                "generated spelling now feeds a field that declared other aliases: the key is consumed by "
                                "that field instead of being unknown (masks absence, raises AliasConflictError)", node=c)
    run.floor("R05f", "uses of the alias generator", uses, 1)


def effective_arg(call: ast.Call, callee, name: str):
    """the expression a call binds to parameter `name` of callee (explicit, positional, or the declared default)"""
    v = kwarg(call, name)
    if v is not None:
        return v
    params = [p for p in callee.params if p not in ("self", "cls")]
    if name in params:
        i = params.index(name)
        if i < len(call.args) and not any(isinstance(a, ast.Starred) for a in call.args[: i + 1]):
            return call.args[i]
    return callee.param_default(name)


def r05g(run):
    """defaults applied while parsing are the immediate (non-deferred) ones"""
    pd, A, B = c06.siblings(run)
    g = run.repo.func("utype.parser.field", "ParserField.get_default")
    if "defer" not in g.params:
        raise AnalysisError("ParserField.get_default has no `defer` parameter")
    total = 0
    scope = [x for x in run.repo.all_functions() if x.module.name.startswith("utype.parser") or x.module.name == "utype.schema"]
    for f in scope:
        if f is g:
            continue
        fa = None
        for c in walk_shallow(f.node):
            if not (isinstance(c, ast.Call) and call_attr(c) == "get_default" and isinstance(c.func, ast.Attribute)):
                continue
            total += 1
            v = effective_arg(c, g, "defer")
            strategy = f in (A, B)
            ok = isinstance(v, ast.Constant) and isinstance(v.value, bool) and (v.value is False or not strategy)
            run.check("R05g", f, f"`{unparse(c)[:50]}` binds an explicit deferral mode"
                      + (" (defer=False at parse time)" if strategy else ""), ok,
                      construct="default requested with defer " + (unparse(v) if v is not None else "unbound"),
                      message=f"{f.qualname}: `{unparse(c)}` binds defer={unparse(v) if v is not None else 'nothing'} "
                              f"(explicit argument or the declared default of get_default)",
                      necessity="with defer=None get_default skips the defer test: a Field(defer_default=True) default "
                                "(or Options(defer_default=True)) is evaluated and stored at parse time - also on the "
                                "exclude path of parse_value - although it must stay absent until the attribute is read",
                      node=c)
    run.floor("R05g", "get_default call sites", total, 7)


def r05h(run):
    """inherited fields are merged so that the nearest declaration wins: bases are visited farthest-first and each one
    overwrites the previous (dict.update), or nearest-first without overwriting"""
    f = run.repo.func("utype.parser.cls", "ClassParser.generate_from_bases")
    fa = analysis(f)
    loops = [n for n in fa.cfg.nodes if n.kind == "iter" and ("__bases__" in unparse(n.ast) or "__mro__" in unparse(n.ast))]
    run.floor("R05h", "loops over the base classes in generate_from_bases", len(loops), 1)
    for lp in loops:
        it = lp.ast
        rev = isinstance(it, ast.Call) and call_attr(it) == "reversed"
        merges = []
        for x in walk_shallow(lp.stmt):
            if isinstance(x, ast.Call) and call_attr(x) == "update" and x.args and unparse(x.args[0]).endswith(".fields"):
                merges.append("update")
            if isinstance(x, ast.Call) and call_attr(x) == "setdefault":
                merges.append("setdefault")
        overwriting = "update" in merges
        ok = (rev and overwriting) or (not rev and merges and not overwriting)
        run.check("R05h", f, "the nearest base's declaration of a field wins when fields are inherited", ok,
                  construct="inherited fields merged in the wrong direction",
                  message=f"generate_from_bases iterates `{unparse(it)}` and merges with {sorted(set(merges)) or 'nothing'}: "
                          f"with overwriting merges the bases must be visited farthest-first (reversed)",
                  necessity="a field re-declared by an intermediate base (other type or constraints) is replaced by the "
                            "grand-parent's declaration: ArchivedRecord(code=12345) is accepted although `code` is "
                            "declared str with max_length=4", node=it)


def r05i(run):
    """every addition policy that is not a boolean and not empty is a type declaration: parse_addition_type interpreted
    (absint.py) over None / False / True / a class / a typing alias (not a class) / a name given as text"""
    from ..absint import Interp, Obj, Raised
    f = run.repo.func("utype.parser.base", "BaseParser.parse_addition_type")
    B = f.cls
    methods = {m.name: m.node for m in B.methods.values()} if B else {}
    methods.pop("parse_annotation", None)
    cases = [("None", None, False), ("False", False, False), ("True", True, False), ("a class", int, True),
             ("a typing alias (List[int]: not a class)", Obj("typing-alias"), True), ("a name given as text", "Later", True)]
    bad = []
    for label, addition, typed in cases:
        self_ = Obj("BaseParser", options=Obj("Options", addition=addition), addition_type=None,
                    parse_annotation=lambda annotation=None, **kw: ("parsed", annotation))
        ip = Interp(methods=methods, module=f.module)
        try:
            ip.call_function(f.node, (self_,), {})
        except Raised as r:
            bad.append((label, f"raises {r.cls}"))
            continue
        got = self_.addition_type
        want = ("parsed", addition) if typed else None
        if got != want:
            bad.append((label, got))
    run.check("R05i", f, "a non-boolean addition policy is parsed as the type of unknown keys", not bad,
              construct="addition type not recorded",
              message="BaseParser.parse_addition_type: " + "; ".join(
                  f"for addition = {l} the recorded type is {g!r}" for l, g in bad[:3]),
              necessity="`**kwargs: Optional[int]` / Options(addition=Dict[str, int]) record no type: unknown keys are kept "
                        "unconverted at construction and on item assignment")
    run.floor("R05i", "addition policies evaluated", len(cases), 6)


def check(run):
    run.rules_run += ["R05a", "R05b", "R05c", "R05d", "R05e", "R05f", "R05g", "R05h", "R06f"]
    run.explain("C05 (enforcement skeleton, not the contract itself): (R05a) get_default returns copy_value(default), "
                "copy_value recurses into sequences and dicts; (R05b) every parse_value in the binding code is dominated "
                "by is_no_input being false and a no-input field receives only its default; (R05c) AbsenceError exactly "
                "under is_required, nothing stored afterwards, defaults only when not required, is_required honours "
                "ignore_required / always_no_input; (R05d) parse_addition is the ordered switch False -> ExceedError, "
                "falsy -> drop, no type -> keep, type -> convert; (R05e) no_output gates before mapping stores, option "
                "precedence in get_default, field lookup order.")
    run.rule(r05a, run)
    run.rule(r05b, run)
    run.rule(r05c, run)
    run.rule(r05d, run)
    run.rule(r05e, run)
    run.rule(r05f, run)
    run.rule(r05g, run)
    run.rule(r05h, run)
    run.rules_run.append("R05i")
    run.rule(r05i, run)
    # shared with C06: the alias tables of a case-insensitive field use the same folding as the lookups
    # shared with C06: the alias tables are rebuilt from the current fields (an alias dropped by a re-declaration is gone)
    run.rules_run += ["R06h", "R06e"]
    run.rule(c06.r06h, run)
    run.rule(c06.r06e, run)
    pd, A, B = c06.siblings(run)
    run.rule(c06.r06f, run, A, B)
    from . import c10 as _c10
    run.rules_run.append("R05j")
    run.rule(_c10.option_defaults, run, "R05j", {'ignore_required': 'False', 'no_default': 'False', 'defer_default': 'False', 'force_default': 'unprovided', 'addition': 'None', 'ignore_alias_conflicts': 'False'}, "the field contract applies as declared under the default options")
    from . import c18 as _c18
    run.rules_run.append("R18l")
    run.rule(_c18.r18l, run)
    # round 8: shared helpers decided as tables (helper_table.py)
    from . import helper_table as _ht
    run.rules_run.append("R19f")
    run.rule(_ht.r_copy, run)
