"""utverif - static checkers for the utype properties C01..C20.

Everything here works on the *source text* of /repo's working tree (Python ``ast``).
``utype`` is never imported or executed by a check.
"""

REPO_ROOT_DEFAULT = "/repo"
PACKAGE = "utype"
