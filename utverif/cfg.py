"""Statement-level control-flow graph with exceptional edges, dominators, reaching definitions,
and branch facts.  Pure ``ast``; nothing is executed.

Repo-specific facts built in (and validated against the source on every run by ``validate_policy``):
  * ``X.handle_error(e)``          -> may return *and* may raise; with ``force_raise=True`` it only raises
  * ``X.raise_error()``            -> may return and may raise
  * ``raise``                      -> only raises
"""
import ast
import os
from typing import Dict, FrozenSet, List, Optional, Set, Tuple, Iterable

from .model import AnalysisError, FuncNode, call_attr, kwarg, unparse, walk_shallow

N, E = "n", "e"   # edge kinds: normal, exceptional


class Node:
    __slots__ = ("id", "kind", "ast", "stmt", "succ", "pred", "test", "polarity", "is_for", "handler", "depth")

    def __init__(self, id, kind, ast_node=None, stmt=None):
        self.id = id
        self.kind = kind          # entry exit raise stmt test iter with handler branch join
        self.ast = ast_node       # expression or statement evaluated at this node
        self.stmt = stmt          # enclosing statement (for reporting)
        self.succ: List[Tuple["Node", str]] = []
        self.pred: List[Tuple["Node", str]] = []
        self.test = None
        self.polarity = None
        self.is_for = False
        self.handler = None
        self.depth = 0

    @property
    def lineno(self):
        for a in (self.ast, self.stmt):
            if a is not None and hasattr(a, "lineno"):
                return a.lineno
        return None

    def __repr__(self):
        t = ""
        if self.kind == "branch":
            t = f" {unparse(self.test)}={self.polarity}"
        elif self.ast is not None:
            t = " " + " ".join(unparse(self.ast).split())[:60]
        return f"<{self.id}:{self.kind}{t}>"


def _is_catch_all(h: ast.ExceptHandler) -> bool:
    if h.type is None:
        return True
    names = []
    if isinstance(h.type, ast.Tuple):
        names = [unparse(e) for e in h.type.elts]
    else:
        names = [unparse(h.type)]
    return any(n in ("Exception", "BaseException") for n in names)


def handler_type_names(h: ast.ExceptHandler) -> List[str]:
    if h.type is None:
        return ["BaseException"]
    if isinstance(h.type, ast.Tuple):
        return [unparse(e) for e in h.type.elts]
    return [unparse(h.type)]


def is_handle_error_call(call: ast.Call) -> bool:
    return isinstance(call.func, ast.Attribute) and call.func.attr == "handle_error"


def is_forced(call: ast.Call) -> bool:
    v = kwarg(call, "force_raise")
    if v is None and len(call.args) >= 2:
        v = call.args[1]
    return isinstance(v, ast.Constant) and v.value is True


def stmt_call(st) -> Optional[ast.Call]:
    """the call of an expression statement `f(...)` / `await f(...)`"""
    if isinstance(st, ast.Expr):
        v = st.value
        if isinstance(v, ast.Await):
            v = v.value
        if isinstance(v, ast.Call):
            return v
    return None


def never_returns(st) -> bool:
    if isinstance(st, ast.Raise):
        return True
    c = stmt_call(st)
    if c is not None and is_handle_error_call(c) and is_forced(c):
        return True
    return False


def may_raise(node) -> bool:
    """conservative: anything but trivially safe statements may raise"""
    if isinstance(node, (ast.Pass, ast.Break, ast.Continue, ast.Global, ast.Nonlocal)):
        return False
    if isinstance(node, FuncNode + (ast.ClassDef,)):
        return bool(node.decorator_list)
    if isinstance(node, ast.Return):
        return node.value is not None and not isinstance(node.value, (ast.Name, ast.Constant))
    if isinstance(node, ast.Assign):
        simple_t = all(isinstance(t, ast.Name) for t in node.targets)
        return not (simple_t and isinstance(node.value, (ast.Name, ast.Constant)))
    if isinstance(node, (ast.Name, ast.Constant)):
        return False
    return True


class CFG:
    def __init__(self, func_node):
        self.func = func_node
        self.nodes: List[Node] = []
        self.entry = self._new("entry")
        self.exit = self._new("exit")
        self.raise_exit = self._new("raise")
        self._inlines = []   # (InlineBlock, [end nodes]): helper bodies analysed in place (inline.py)
        self._loops = []     # (continue_target, break_list)
        self._tries = []     # frames: dict(handlers=[Node], catch_all=bool, fin=None|dict)
        self.stmt_nodes: Dict[int, Node] = {}      # id(ast stmt) -> primary node
        self.handler_nodes: Dict[int, Node] = {}   # id(ExceptHandler) -> node
        out = self._block(func_node.body, [self.entry])
        for p in out:
            self._edge(p, self.exit, N)
        self._dom = None
        self._pdom = None

    # -- construction -------------------------------------------------------------------------
    def _new(self, kind, ast_node=None, stmt=None) -> Node:
        n = Node(len(self.nodes), kind, ast_node, stmt)
        n.depth = len(self._loops) if hasattr(self, "_loops") else 0
        self.nodes.append(n)
        return n

    def _edge(self, a: Node, b: Node, kind: str):
        if (b, kind) not in a.succ:
            a.succ.append((b, kind))
            b.pred.append((a, kind))

    def _link(self, preds: List[Node], n: Node):
        for p in preds:
            self._edge(p, n, N)

    def _exc_targets(self) -> List[Node]:
        out = []
        for fr in reversed(self._tries):
            if fr.get("in_handlers"):
                # we are inside a handler/else of this frame: its handlers do not apply, its finally does
                if fr["fin"] is not None:
                    out.append(fr["fin"])
                    return out
                continue
            out.extend(fr["handlers"])
            if fr["catch_all"]:
                return out
            if fr["fin"] is not None:
                out.append(fr["fin"])
                return out
        out.append(self.raise_exit)
        return out

    def _exc(self, n: Node):
        for t in self._exc_targets():
            self._edge(n, t, E)

    def _branch(self, test_node: Node, test_ast, polarity, is_for=False) -> Node:
        b = self._new("branch", None, test_node.stmt)
        b.test = test_ast
        b.polarity = polarity
        b.is_for = is_for
        self._edge(test_node, b, N)
        return b

    def _block(self, stmts, preds: List[Node]) -> List[Node]:
        i = 0
        while i < len(stmts):
            st = stmts[i]
            nxt = stmts[i + 1] if i + 1 < len(stmts) else None
            if st.__class__.__name__ == "InlineBlock" and isinstance(nxt, ast.If):
                # jump threading: an exit of the helper that binds the tested name to a constant goes straight to the arm
                # that constant selects (`return None` ... `if result is not None:`; `return True, x` ... `if matched:`)
                outs = self._stmt(st, preds)
                preds = self._threaded_if(nxt, outs)
                i += 2
                continue
            preds = self._stmt(st, preds)
            i += 1
        return preds

    @staticmethod
    def _const_test(test, var: str, value) -> Optional[bool]:
        """truth of `test` when `var` holds the constant `value` (None when the test is not about var alone)"""
        if isinstance(test, ast.UnaryOp) and isinstance(test.op, ast.Not):
            r = CFG._const_test(test.operand, var, value)
            return None if r is None else (not r)
        if isinstance(test, ast.Name) and test.id == var:
            return bool(value)
        if isinstance(test, ast.Compare) and len(test.ops) == 1 and isinstance(test.left, ast.Name) and test.left.id == var \
                and isinstance(test.comparators[0], ast.Constant):
            c = test.comparators[0].value
            op = test.ops[0]
            if isinstance(op, ast.Is):
                return value is c
            if isinstance(op, ast.IsNot):
                return value is not c
            if isinstance(op, ast.Eq):
                return value == c
            if isinstance(op, ast.NotEq):
                return value != c
        return None

    @staticmethod
    def _sentinel_test(test, var: str, bound_to: str) -> Optional[bool]:
        """truth of `var is [not] SENTINEL` when var was just bound to the name `bound_to`: identical when that is the
        sentinel itself, different when it is a local value and the sentinel is a module-level marker (_NAME / NAME)"""
        neg = False
        while isinstance(test, ast.UnaryOp) and isinstance(test.op, ast.Not):
            test, neg = test.operand, not neg
        if isinstance(test, ast.Compare) and len(test.ops) == 1 and isinstance(test.ops[0], (ast.Is, ast.IsNot)) \
                and isinstance(test.left, ast.Name) and test.left.id == var and isinstance(test.comparators[0], ast.Name):
            s_ = test.comparators[0].id
            if not (s_.startswith("_") or s_.isupper()):
                return None
            same = bound_to == s_
            if not same and (bound_to.startswith("_") and bound_to.isupper()):
                return None
            r = same if isinstance(test.ops[0], ast.Is) else not same
            return (not r) if neg else r
        return None

    def _threaded_if(self, st: ast.If, outs: List[Node]) -> List[Node]:
        names = {x.id for x in ast.walk(st.test) if isinstance(x, ast.Name)}
        known: List[Tuple[Node, bool]] = []
        unknown: List[Node] = []
        for o in outs:
            verdict = None
            cand = [x for x in names if not (x.startswith("_") and x.isupper()) and not x.isupper()]
            if len(cand) == 1:
                var = cand[0]
                cur, steps = o, 0
                while cur is not None and steps < 4:
                    a = cur.ast
                    if cur.kind == "stmt" and isinstance(a, ast.Assign) and len(a.targets) == 1 \
                            and isinstance(a.targets[0], ast.Name) and a.targets[0].id == var:
                        if isinstance(a.value, ast.Constant):
                            verdict = self._const_test(st.test, var, a.value.value)
                        elif isinstance(a.value, ast.Name):
                            verdict = self._sentinel_test(st.test, var, a.value.id)
                        break
                    if cur.kind != "stmt" or not isinstance(a, ast.Assign):
                        break
                    ps = [p for p, k in cur.pred if k == N]
                    cur = ps[0] if len(ps) == 1 else None
                    steps += 1
            if verdict is None:
                unknown.append(o)
            else:
                known.append((o, verdict))
        if not known:
            return self._stmt(st, outs)
        t = self._new("test", st.test, st)
        self.stmt_nodes[id(st)] = t
        self._link(unknown, t)
        if may_raise(st.test):
            self._exc(t)
        bt = self._branch(t, st.test, True)
        bf = self._branch(t, st.test, False)
        for o, v in known:
            self._edge(o, bt if v else bf, N)
        out_t = self._block(st.body, [bt])
        out_f = self._block(st.orelse, [bf]) if st.orelse else [bf]
        return out_t + out_f

    def _stmt(self, st, preds: List[Node]) -> List[Node]:
        if st.__class__.__name__ == "InlineBlock":
            # the body of a helper analysed where it is called: `return` inside it leaves the block (inline.py)
            ends: List[Node] = []
            self._inlines.append((st, ends))
            out = self._block(st.body, preds)
            self._inlines.pop()
            return out + ends

        if isinstance(st, ast.If):
            t = self._new("test", st.test, st)
            self.stmt_nodes[id(st)] = t
            self._link(preds, t)
            if may_raise(st.test):
                self._exc(t)
            bt = self._branch(t, st.test, True)
            bf = self._branch(t, st.test, False)
            out_t = self._block(st.body, [bt])
            out_f = self._block(st.orelse, [bf]) if st.orelse else [bf]
            return out_t + out_f

        if isinstance(st, ast.While):
            t = self._new("test", st.test, st)
            self.stmt_nodes[id(st)] = t
            self._link(preds, t)
            if may_raise(st.test):
                self._exc(t)
            const_true = isinstance(st.test, ast.Constant) and bool(st.test.value)
            bt = self._branch(t, st.test, True)
            breaks: List[Node] = []
            self._loops.append((t, breaks))
            out_b = self._block(st.body, [bt])
            self._loops.pop()
            self._link(out_b, t)
            outs = []
            if not const_true:
                bf = self._branch(t, st.test, False)
                outs = self._block(st.orelse, [bf]) if st.orelse else [bf]
            return outs + breaks

        if isinstance(st, (ast.For, ast.AsyncFor)):
            it = self._new("iter", st.iter, st)
            self.stmt_nodes[id(st)] = it
            self._link(preds, it)
            self._exc(it)
            bt = self._branch(it, st.iter, True, is_for=True)
            bf = self._branch(it, st.iter, False, is_for=True)
            breaks: List[Node] = []
            self._loops.append((it, breaks))
            out_b = self._block(st.body, [bt])
            self._loops.pop()
            self._link(out_b, it)
            outs = self._block(st.orelse, [bf]) if st.orelse else [bf]
            return outs + breaks

        if isinstance(st, (ast.With, ast.AsyncWith)):
            w = self._new("with", st, st)
            self.stmt_nodes[id(st)] = w
            self._link(preds, w)
            self._exc(w)
            return self._block(st.body, [w])

        if isinstance(st, ast.Try) or st.__class__.__name__ == "TryStar":
            j = self._new("join", None, st)     # try entry marker
            self.stmt_nodes[id(st)] = j
            self._link(preds, j)
            hnodes = []
            for h in st.handlers:
                hn = self._new("handler", h, st)
                hn.handler = h
                self.handler_nodes[id(h)] = hn
                hnodes.append(hn)
            fin_entry = None
            if st.finalbody:
                fin_entry = self._new("join", None, st)
            frame = {"handlers": hnodes, "catch_all": any(_is_catch_all(h) for h in st.handlers),
                     "fin": fin_entry, "in_handlers": False}
            self._tries.append(frame)
            out_body = self._block(st.body, [j])
            frame["in_handlers"] = True
            out_else = self._block(st.orelse, out_body) if st.orelse else out_body
            outs = list(out_else)
            for h, hn in zip(st.handlers, hnodes):
                outs += self._block(h.body, [hn])
            self._tries.pop()
            if fin_entry is not None:
                self._link(outs, fin_entry)
                fouts = self._block(st.finalbody, [fin_entry])
                # after finally: continue normally, or keep propagating an exception / a return
                for f in fouts:
                    for t in self._exc_targets():
                        self._edge(f, t, E)
                    if frame.get("has_return"):
                        self._edge(f, self.exit, N)
                return fouts
            return outs

        if isinstance(st, ast.Return) and self._inlines and self._inlines[-1][0].tail == "raise" and st.value is not None:
            # helper inlined at `raise helper(...)`: its result is raised
            synth = ast.Raise(exc=st.value, cause=None)
            ast.copy_location(synth, st)
            ast.fix_missing_locations(synth)
            return self._stmt(synth, preds)

        if isinstance(st, ast.Return) and any(not blk.tail for blk, _e in self._inlines):
            blk, ends = [x for x in self._inlines if not x[0].tail][-1]
            if isinstance(blk.result, tuple):
                # `a, b = h(..)` with `return x, y` in the helper: a = x; b = y (one node each, the last one leaves the block)
                vals = st.value.elts if isinstance(st.value, ast.Tuple) and len(st.value.elts) == len(blk.result) else None
                cur = preds
                last = None
                if vals is None:
                    synth = ast.Assign(targets=[ast.Tuple(elts=[ast.Name(id=r, ctx=ast.Store()) for r in blk.result],
                                                          ctx=ast.Store())], value=st.value or ast.Constant(value=None))
                    parts = [synth]
                else:
                    parts = [ast.Assign(targets=[ast.Name(id=r, ctx=ast.Store())], value=v) for r, v in zip(blk.result, vals)]
                for synth in parts:
                    ast.copy_location(synth, st)
                    ast.fix_missing_locations(synth)
                    n = self._new("stmt", synth, synth)
                    self._link(cur, n)
                    if may_raise(synth):
                        self._exc(n)
                    cur = [n]
                    last = n
                self.stmt_nodes[id(st)] = last
                ends.append(last)
                return []
            if blk.result and st.value is not None:
                synth = ast.Assign(targets=[ast.Name(id=blk.result, ctx=ast.Store())], value=st.value)
            elif blk.result:
                synth = ast.Assign(targets=[ast.Name(id=blk.result, ctx=ast.Store())], value=ast.Constant(value=None))
            elif st.value is not None:
                synth = ast.Expr(value=st.value)
            else:
                synth = ast.Pass()
            ast.copy_location(synth, st)
            ast.fix_missing_locations(synth)
            n = self._new("stmt", synth, synth)
            self.stmt_nodes[id(st)] = n
            self._link(preds, n)
            if may_raise(synth):
                self._exc(n)
            ends.append(n)
            return []

        if isinstance(st, ast.Return):
            n = self._new("stmt", st, st)
            self.stmt_nodes[id(st)] = n
            self._link(preds, n)
            if may_raise(st):
                self._exc(n)
            fin = None
            for fr in reversed(self._tries):
                if fr["fin"] is not None:
                    fin = fr
                    break
            if fin is not None:
                fin["has_return"] = True
                self._edge(n, fin["fin"], N)
            else:
                self._edge(n, self.exit, N)
            return []

        if isinstance(st, ast.Raise):
            n = self._new("stmt", st, st)
            self.stmt_nodes[id(st)] = n
            self._link(preds, n)
            self._exc(n)
            return []

        if isinstance(st, ast.Break):
            n = self._new("stmt", st, st)
            self.stmt_nodes[id(st)] = n
            self._link(preds, n)
            if not self._loops:
                raise AnalysisError("break outside loop")
            self._loops[-1][1].append(n)
            return []

        if isinstance(st, ast.Continue):
            n = self._new("stmt", st, st)
            self.stmt_nodes[id(st)] = n
            self._link(preds, n)
            if not self._loops:
                raise AnalysisError("continue outside loop")
            self._edge(n, self._loops[-1][0], N)
            return []

        if isinstance(st, (ast.Assign, ast.AugAssign, ast.AnnAssign, ast.Expr, ast.Delete, ast.Assert,
                           ast.Pass, ast.Import, ast.ImportFrom, ast.Global, ast.Nonlocal) + FuncNode
                      + (ast.ClassDef,)):
            n = self._new("stmt", st, st)
            self.stmt_nodes[id(st)] = n
            self._link(preds, n)
            if may_raise(st):
                self._exc(n)
            if never_returns(st):
                return []
            return [n]

        raise AnalysisError(f"unsupported statement kind {type(st).__name__} at line {getattr(st, 'lineno', '?')}")

    # -- queries ------------------------------------------------------------------------------
    def node_of(self, st) -> Node:
        n = self.stmt_nodes.get(id(st))
        if n is None:
            raise AnalysisError(f"statement not in CFG: {unparse(st)[:80]}")
        return n

    def reachable(self, start: Node = None, kinds=(N, E), avoid: Iterable[Node] = ()) -> Set[Node]:
        start = start or self.entry
        avoid = set(avoid)
        seen = set()
        stack = [start]
        while stack:
            n = stack.pop()
            if n in seen or n in avoid:
                continue
            seen.add(n)
            for s, k in n.succ:
                if k in kinds and s not in seen and s not in avoid:
                    stack.append(s)
        return seen

    def reach_from_succ(self, start: Node, kinds=(N, E), avoid: Iterable[Node] = ()) -> Set[Node]:
        """nodes reachable by at least one edge from start (start included only if on a cycle)"""
        avoid = set(avoid)
        seen = set()
        stack = [s for s, k in start.succ if k in kinds and s not in avoid]
        while stack:
            n = stack.pop()
            if n in seen or n in avoid:
                continue
            seen.add(n)
            for s, k in n.succ:
                if k in kinds and s not in seen and s not in avoid:
                    stack.append(s)
        return seen

    def can_reach(self, a: Node, b: Node, kinds=(N, E), avoid: Iterable[Node] = ()) -> bool:
        return b in self.reach_from_succ(a, kinds, avoid)

    def dominators(self) -> Dict[Node, Set[Node]]:
        if self._dom is None:
            self._dom = _dominators(self.nodes, self.entry, forward=True)
        return self._dom

    def dominates(self, a: Node, b: Node) -> bool:
        d = self.dominators().get(b)
        return d is not None and a in d

    def postdominators(self, exit_node: Node = None) -> Dict[Node, Set[Node]]:
        ex = exit_node or self.exit
        if self._pdom is None:
            self._pdom = {}
        if ex not in self._pdom:
            self._pdom[ex] = _dominators(self.nodes, ex, forward=False)
        return self._pdom[ex]

    def is_live(self, n: Node) -> bool:
        return n in self.dominators()


def _dominators(nodes: List[Node], root: Node, forward: bool) -> Dict[Node, Set[Node]]:
    nxt = (lambda n: [s for s, _ in n.succ]) if forward else (lambda n: [p for p, _ in n.pred])
    prv = (lambda n: [p for p, _ in n.pred]) if forward else (lambda n: [s for s, _ in n.succ])
    # reachable set + reverse post order
    order = []
    seen = set()

    def dfs(start):
        stack = [(start, iter(nxt(start)))]
        seen.add(start)
        while stack:
            n, it = stack[-1]
            adv = False
            for s in it:
                if s not in seen:
                    seen.add(s)
                    stack.append((s, iter(nxt(s))))
                    adv = True
                    break
            if not adv:
                order.append(n)
                stack.pop()

    dfs(root)
    order.reverse()
    allset = set(order)
    dom = {n: set(allset) for n in order}
    dom[root] = {root}
    changed = True
    while changed:
        changed = False
        for n in order:
            if n is root:
                continue
            ps = [p for p in prv(n) if p in allset]
            if not ps:
                new = {n}
            else:
                it = iter(ps)
                new = set(dom[next(it)])
                for p in it:
                    new &= dom[p]
                new.add(n)
            if new != dom[n]:
                dom[n] = new
                changed = True
    return dom


# ---- definitions / uses ----------------------------------------------------------------------

def target_names(t) -> List[str]:
    out = []
    if isinstance(t, ast.Name):
        out.append(t.id)
    elif isinstance(t, (ast.Tuple, ast.List)):
        for e in t.elts:
            out += target_names(e)
    elif isinstance(t, ast.Starred):
        out += target_names(t.value)
    return out


def node_defs(n: Node) -> List[str]:
    """local names (re)bound by executing node n normally"""
    a = n.ast
    out = []
    if n.kind == "stmt":
        if isinstance(a, ast.Assign):
            for t in a.targets:
                out += target_names(t)
        elif isinstance(a, (ast.AugAssign, ast.AnnAssign)):
            if isinstance(a, ast.AnnAssign) and a.value is None:
                return out
            out += target_names(a.target)
        elif isinstance(a, (ast.Import, ast.ImportFrom)):
            for al in a.names:
                out.append((al.asname or al.name).split(".")[0])
        elif isinstance(a, FuncNode + (ast.ClassDef,)):
            out.append(a.name)
        elif isinstance(a, ast.Delete):
            for t in a.targets:
                out += target_names(t)
    elif n.kind == "with":
        for it in a.items:
            if it.optional_vars is not None:
                out += target_names(it.optional_vars)
    elif n.kind == "handler":
        if a.name:
            out.append(a.name)
    elif n.kind == "branch" and n.is_for and n.polarity:
        out += target_names(n.stmt.target)
    # walrus
    if a is not None and n.kind in ("stmt", "test", "iter", "with"):
        src = a if n.kind != "with" else ast.Module(body=[ast.Expr(i.context_expr) for i in a.items], type_ignores=[])
        for sub in walk_shallow(src):
            if isinstance(sub, ast.NamedExpr):
                out += target_names(sub.target)
    return out


class ReachingDefs:
    """classic may-reaching definitions for local names; exceptional edges carry the IN set
    (the statement's own binding has not happened when it raises)."""

    def __init__(self, cfg: CFG, params: List[str]):
        self.cfg = cfg
        self.params = params
        self.gen: Dict[Node, List[str]] = {n: node_defs(n) for n in cfg.nodes}
        self.locals: Set[str] = set(params)
        for names in self.gen.values():
            self.locals.update(names)
        # definitions are (node, name); entry defines every param, and UNBOUND for other locals
        self.IN: Dict[Node, Set[Tuple[Node, str]]] = {n: set() for n in cfg.nodes}
        self.OUT: Dict[Node, Set[Tuple[Node, str]]] = {n: set() for n in cfg.nodes}
        self._solve()

    def _solve(self):
        cfg = self.cfg
        self.OUT[cfg.entry] = {(cfg.entry, v) for v in self.locals}
        work = [s for s, _ in cfg.entry.succ]
        inq = set(work)
        while work:
            n = work.pop()
            inq.discard(n)
            new_in = set()
            for p, k in n.pred:
                new_in |= self.OUT[p] if k == N else self.IN[p] if p is not cfg.entry else self.OUT[p]
            g = self.gen[n]
            if g:
                new_out = {d for d in new_in if d[1] not in g} | {(n, v) for v in g}
            else:
                new_out = new_in
            if new_in != self.IN[n] or new_out != self.OUT[n]:
                in_changed = new_in != self.IN[n]
                out_changed = new_out != self.OUT[n]
                self.IN[n] = new_in
                self.OUT[n] = new_out
                for s, k in n.succ:
                    if (k == N and out_changed) or (k == E and in_changed):
                        if s not in inq:
                            inq.add(s)
                            work.append(s)

    refine = None       # set by FuncAnalysis: path-sensitive pruning of infeasible definitions

    def defs_of(self, n: Node, name: str) -> List[Node]:
        """definition nodes of `name` reaching the *evaluation* of node n (cfg.entry = parameter / unbound); when several
        reach, those that only arrive along infeasible paths (PathFacts) are left out"""
        ds = [d for d, v in self.IN[n] if v == name]
        if len(ds) > 1 and self.refine is not None:
            ds = self.refine(n, name, ds)
        return ds

    def is_param_only(self, n: Node, name: str) -> bool:
        ds = self.defs_of(n, name)
        return bool(ds) and all(d is self.cfg.entry for d in ds) and name in self.params


# ---- branch facts ----------------------------------------------------------------------------

def decompose(test, polarity: bool) -> List[Tuple[ast.AST, bool]]:
    """atoms that must hold when `test` evaluated to `polarity`"""
    out = []
    if isinstance(test, ast.UnaryOp) and isinstance(test.op, ast.Not):
        return decompose(test.operand, not polarity)
    if isinstance(test, ast.BoolOp):
        if isinstance(test.op, ast.And) and polarity:
            for v in test.values:
                out += decompose(v, True)
            return out
        if isinstance(test.op, ast.Or) and not polarity:
            for v in test.values:
                out += decompose(v, False)
            return out
        return [(test, polarity)]
    return [(test, polarity)]


def branch_atoms(b) -> List[Tuple[str, bool]]:
    """(atom text, polarity) pairs that hold in branch node `b`: `if not x: A else: B` gives B the atom (x, True), so a
    rule that asks "the branch where x holds" is indifferent to which arm the code is written in"""
    if b.kind != "branch" or b.is_for or b.test is None:
        return []
    return [(unparse(a), bool(p)) for a, p in decompose(b.test, b.polarity)]


def branch_has(b, text: str, pol: bool = True) -> bool:
    return (text, pol) in branch_atoms(b)


class Facts:
    """facts_at(n): list of (atom_ast, polarity, branch_node) that must hold whenever n executes."""

    def __init__(self, cfg: CFG, rd: ReachingDefs):
        self.cfg = cfg
        self.rd = rd
        self._cache = {}

    def branch_facts(self, n: Node) -> List[Node]:
        """branch nodes dominating n whose test variables are not rebound between the branch and n"""
        if n in self._cache:
            return self._cache[n]
        res = []
        dom = self.cfg.dominators().get(n, set())
        for b in dom:
            if b.kind != "branch" or b.is_for or b is n:
                continue
            names = {x.id for x in ast.walk(b.test) if isinstance(x, ast.Name)}
            killed = False
            if names:
                # a rebinding node m with b ->* m ->+ n (not passing the test node again)
                testnode = b.pred[0][0]
                region = self.cfg.reach_from_succ(b, avoid=[testnode])
                for m in region:
                    g = self.rd.gen.get(m)
                    if g and names.intersection(g):
                        if n in self.cfg.reach_from_succ(m, avoid=[testnode]):
                            killed = True
                            break
            if not killed:
                res.append(b)
        res.sort(key=lambda x: x.id)
        self._cache[n] = res
        return res

    def atoms_at(self, n: Node) -> List[Tuple[ast.AST, bool]]:
        out = []
        for b in self.branch_facts(n):
            out += decompose(b.test, b.polarity)
        return out

    def atoms_after(self, p: Node) -> List[Tuple[ast.AST, bool]]:
        """facts holding on the edges leaving p"""
        out = self.atoms_at(p)
        if p.kind == "branch" and not p.is_for:
            out = out + decompose(p.test, p.polarity)
        return out

    def atoms_entering_loop(self, testnode: Node) -> List[Tuple[ast.AST, bool]]:
        """facts that hold on every edge entering a loop head from outside the loop"""
        inner = set()
        for s, k in testnode.succ:
            if s.kind == "branch" and s.polarity is True:
                inner = self.cfg.reach_from_succ(s, avoid=[testnode]) | {s}
        preds = [p for p, k in testnode.pred if p not in inner]
        common = None
        for p in preds:
            texts = {(unparse(a), pol): (a, pol) for a, pol in self.atoms_after(p)}
            if common is None:
                common = texts
            else:
                common = {k: v for k, v in common.items() if k in texts}
        return list((common or {}).values())

    def holds(self, n: Node, pred) -> bool:
        """pred(atom_ast, polarity) -> bool ; true if any must-fact satisfies it"""
        return any(pred(a, p) for a, p in self.atoms_at(n))


PURE_PREDICATES = {"unprovided", "isinstance", "issubclass", "hasattr", "callable", "len", "bool", "type", "getattr",
                   "is_required", "is_no_input", "is_no_output", "always_no_input", "multi", "str", "int"}


def _pure_atom(a) -> bool:
    """an atom whose truth cannot change while the names in it keep their bindings (no call other than the repository's
    query predicates): only such atoms are used to recognise two tests as the same test"""
    for x in ast.walk(a):
        if isinstance(x, ast.Call):
            f = x.func
            name = f.id if isinstance(f, ast.Name) else f.attr if isinstance(f, ast.Attribute) else None
            if name not in PURE_PREDICATES:
                return False
        elif isinstance(x, (ast.Await, ast.Yield, ast.YieldFrom, ast.NamedExpr)):
            return False
    return True


_CMP_COMPLEMENT = {ast.NotEq: ast.Eq, ast.IsNot: ast.Is, ast.NotIn: ast.In}


def canonical_atom(a, pol: bool):
    """normal form of a literal: `not x` -> (x, flipped); `a is not b` -> (a is b, flipped); likewise != and not in"""
    while isinstance(a, ast.UnaryOp) and isinstance(a.op, ast.Not):
        a, pol = a.operand, not pol
    if isinstance(a, ast.Compare) and len(a.ops) == 1 and type(a.ops[0]) in _CMP_COMPLEMENT:
        a = ast.Compare(left=a.left, ops=[_CMP_COMPLEMENT[type(a.ops[0])]()], comparators=a.comparators)
        pol = not pol
    return a, pol


def _identity_atom(a) -> bool:
    """an atom about what an object *is* (identity / class), which no mutation of the object can change"""
    if isinstance(a, ast.Compare) and len(a.ops) == 1 and isinstance(a.ops[0], (ast.Is, ast.IsNot)):
        return not any(isinstance(x, (ast.Attribute, ast.Subscript, ast.Call)) for x in ast.walk(a))
    if isinstance(a, ast.Call) and isinstance(a.func, ast.Name) and a.func.id in ("isinstance", "issubclass", "callable"):
        return not any(isinstance(x, (ast.Attribute, ast.Subscript)) for x in ast.walk(a.args[0])) if a.args else False
    if isinstance(a, ast.Name) and ":=" in getattr(a, "_pseudo", ""):
        return True
    return False


_NON_MUTATING_METHODS = {"get", "keys", "values", "items", "copy", "lower", "upper", "strip", "startswith", "endswith",
                         "split", "join", "format", "isdigit", "count", "index", "find", "as_tuple", "is_finite",
                         "difference", "union", "intersection", "issubset", "issuperset", "isdisjoint", "encode", "decode",
                         "replace", "rstrip", "lstrip", "total_seconds", "date", "time", "is_required", "is_no_input",
                         "is_no_output", "always_no_input", "always_no_output", "get_default", "get_on_error"}


def node_mutates(n: Node) -> Set[str]:
    """local names whose object may be changed in place by executing n: the root of an attribute / subscript store or
    delete, the receiver of a method call (other than a known query), an argument handed to a call"""
    a = n.ast
    out: Set[str] = set()
    if a is None or n.kind not in ("stmt", "test", "iter", "with"):
        return out

    def root(e):
        while isinstance(e, (ast.Attribute, ast.Subscript)):
            e = e.value
        return e.id if isinstance(e, ast.Name) else None
    src = [a] if n.kind != "with" else [i.context_expr for i in a.items]
    for top in src:
        for x in walk_shallow(top):
            if isinstance(x, ast.Attribute) and isinstance(x.ctx, (ast.Store, ast.Del)) and isinstance(x.value, ast.Name):
                out.add(f"{x.value.id}.{x.attr}")        # `x.a = ..` changes what `x.a` reads, not `x.b`
            elif isinstance(x, (ast.Attribute, ast.Subscript)) and isinstance(x.ctx, (ast.Store, ast.Del)):
                r = root(x)
                if r:
                    out.add(r)
            elif isinstance(x, ast.AugAssign) and isinstance(x.target, ast.Name):
                out.add(x.target.id)
            elif isinstance(x, ast.Call):
                f = x.func
                if isinstance(f, ast.Attribute):
                    if f.attr not in _NON_MUTATING_METHODS:
                        r = root(f.value)
                        if r:
                            out.add(r)
                fname = f.id if isinstance(f, ast.Name) else None
                if isinstance(f, ast.Attribute) and f.attr in ("append", "add", "extend", "insert", "update", "setdefault",
                                                               "discard", "remove", "pop", "get"):
                    continue        # storing an object in a container does not change the object
                if fname in PURE_PREDICATES or fname in ("repr", "id", "hash", "abs", "min", "max", "sum", "sorted", "any",
                                                         "all", "set", "list", "tuple", "dict", "frozenset", "float"):
                    continue
                for arg in list(x.args) + [k.value for k in x.keywords]:
                    if isinstance(arg, ast.Starred):
                        arg = arg.value
                    if isinstance(arg, ast.Name):
                        out.add(arg.id)
    return out


class PathFacts:
    """Path-sensitive branch facts: for a node, a bounded set of *disjuncts*; every execution reaching the node satisfies
    all atoms of at least one disjunct.  Forward data-flow over the statement graph:

      * a branch node adds the atoms of its test under its polarity (`decompose`), then closes the disjunct under unit
        resolution (`a or b` known true with `a` known false gives `b`; `a and b` known false with `a` true gives not b);
      * a node that rebinds a name drops every atom mentioning it;
      * a disjunct holding an atom with both polarities is infeasible and dropped - only for pure atoms (`_pure_atom`);
      * joins take the union of the disjuncts; beyond BOUND disjuncts the node is collapsed for good to the single
        disjunct of the atoms common to all (this also bounds the fix-point iteration over loops).
    """
    BOUND = 48

    def __init__(self, cfg: CFG, rd: "ReachingDefs", want=None):
        self.cfg = cfg
        self.rd = rd
        # Which atoms are tracked: those a rule asks for (`want(text)`), and those tested by more than one branch of the
        # function (correlated tests).  Everything else is dropped when a branch is entered: it could only multiply the
        # disjuncts without ever deciding a later test.
        self.want = want
        counts: Dict[str, int] = {}
        for n in cfg.nodes:
            if n.kind == "branch" and not n.is_for and n.test is not None and n.polarity is True:
                for a, _p in decompose(n.test, True) + decompose(n.test, False):
                    for sub in self._leaves(a):
                        t = unparse(canonical_atom(sub, True)[0])
                        counts[t] = counts.get(t, 0) + 1
        self.correlated = {t for t, c in counts.items() if c >= 2}
        self.atom_ast: Dict[str, ast.AST] = {}
        self.atom_names: Dict[str, Set[str]] = {}
        self.IN: Dict[Node, Optional[FrozenSet]] = {}
        self.OUT: Dict[Node, Optional[FrozenSet]] = {}
        self.collapsed: Set[Node] = set()
        self._solve()

    # -- atoms ----
    @staticmethod
    def _leaves(a):
        if isinstance(a, ast.UnaryOp) and isinstance(a.op, ast.Not):
            yield from PathFacts._leaves(a.operand)
        elif isinstance(a, ast.BoolOp):
            for v in a.values:
                yield from PathFacts._leaves(v)
        else:
            yield a

    def _tracked(self, a) -> bool:
        for sub in self._leaves(a):
            t = unparse(canonical_atom(sub, True)[0])
            if t in self.correlated or (self.want is not None and self.want(t)):
                return True
        return False

    def _key(self, a) -> str:
        t = unparse(a)
        if t not in self.atom_ast:
            self.atom_ast[t] = a
            self.atom_names[t] = {x.id for x in ast.walk(a) if isinstance(x, ast.Name)}
        return t

    def _close(self, d: Dict[str, bool]) -> Optional[Dict[str, bool]]:
        """unit resolution over the compound atoms of a disjunct; None when contradictory"""
        changed = True
        while changed:
            changed = False
            for t, pol in list(d.items()):
                a = self.atom_ast[t]
                if isinstance(a, ast.BoolOp):
                    is_or = isinstance(a.op, ast.Or)
                    if pol != is_or:
                        continue            # (a or b)=False / (a and b)=True were decomposed already
                    # (a or b)=True : operands known false are removed; one left -> it is true
                    # (a and b)=False: operands known true are removed; one left -> it is false
                    rest = []
                    sat = False
                    for v in a.values:
                        parts = decompose(v, is_or)        # what "v is true" (or) / "v is ... " means as atoms
                        # value of operand v under d: known if single atom
                        if len(parts) == 1:
                            ca, want = canonical_atom(parts[0][0], parts[0][1])
                            k = self._key(ca)
                            if k in d:
                                if d[k] == want:
                                    sat = True if is_or else sat
                                    if not is_or:
                                        continue    # operand true: removed from the conjunction
                                    break
                                else:
                                    if is_or:
                                        continue    # operand false: removed from the disjunction
                                    sat = True      # operand false: conjunction false is explained
                                    break
                        rest.append(v)
                    if sat:
                        continue
                    if len(rest) == 1:
                        for at, p2 in decompose(rest[0], is_or):
                            at, p2 = canonical_atom(at, p2)
                            k = self._key(at)
                            if k in d:
                                if d[k] != p2 and _pure_atom(at):
                                    return None
                            else:
                                d[k] = p2
                                changed = True
                    elif not rest and all(_pure_atom(v) for v in a.values):
                        return None
        return d

    def _add(self, disj: FrozenSet, atoms) -> Optional[FrozenSet]:
        d = dict(disj)
        for a, pol in atoms:
            a, pol = canonical_atom(a, pol)
            if not self._tracked(a):
                continue
            k = self._key(a)
            if k in d and d[k] != pol:
                if _pure_atom(a):
                    return None
                d[k] = pol
            else:
                d[k] = pol
        d = self._close(d)
        if d is None:
            return None
        return frozenset(d.items())

    def _kill(self, state: FrozenSet, names, mutated=()) -> FrozenSet:
        """drop the atoms that mention a rebound name, and the state atoms (truthiness, length, membership, attribute
        reads - everything but identity / class tests) that mention a name whose object may have been changed in place"""
        names = set(names)
        mutated = set(mutated)
        out = set()
        for disj in state:
            keep = []
            for t, p in disj:
                an = self.atom_names[t]
                if an & names:
                    continue
                if mutated and not self._is_identity(t):
                    hit = False
                    for m in mutated:
                        if "." in m:
                            r_, a_ = m.split(".", 1)
                            # an attribute store: the reads of that attribute, and atoms about the object as a whole
                            if r_ in an and (m in t or (r_ + ".") not in t):
                                hit = True
                        elif m in an:
                            hit = True
                    if hit:
                        continue
                keep.append((t, p))
            out.add(frozenset(keep))
        return frozenset(out)

    def _is_identity(self, t: str) -> bool:
        if ":=" in t:
            return True
        return _identity_atom(self.atom_ast[t])

    def _collapse(self, state: FrozenSet) -> FrozenSet:
        it = iter(state)
        common = set(next(it))
        for d in it:
            common &= set(d)
        return frozenset([frozenset(common)])

    def _mutates(self, n: Node) -> Set[str]:
        m = self._mut.get(n)
        if m is None:
            m = self._mut[n] = node_mutates(n)
        return m

    def _value_atoms(self, n: Node, g, state: FrozenSet) -> FrozenSet:
        """`x = None` / `x = <literal>` / `x = SENTINEL` (a name that is not a local): what the binding says about later
        `x is ...` tests"""
        a = n.ast
        if not (n.kind == "stmt" and isinstance(a, ast.Assign) and len(a.targets) == 1 and isinstance(a.targets[0], ast.Name)):
            return state
        x = a.targets[0].id
        if not self.want(f"{x}:="):
            return state
        v = a.value
        facts = []

        def is_atom(rhs_text, rhs_ast):
            node = ast.Compare(left=ast.Name(id=x, ctx=ast.Load()), ops=[ast.Is()], comparators=[rhs_ast])
            return node
        if isinstance(v, ast.Constant) and (v.value is None or isinstance(v.value, bool)):
            facts.append((ast.Name(id=x, ctx=ast.Load()), bool(v.value)))        # `if x:` after `x = True / False / None`
            facts.append((is_atom(repr(v.value), ast.Constant(value=v.value)), True))
            for other in (None, True, False):
                if other is not v.value:
                    facts.append((is_atom(repr(other), ast.Constant(value=other)), False))
        elif isinstance(v, ast.Constant) or isinstance(v, (ast.JoinedStr, ast.List, ast.Dict, ast.Set, ast.Tuple, ast.ListComp,
                                                          ast.DictComp, ast.SetComp)):
            facts.append((is_atom("None", ast.Constant(value=None)), False))
        elif isinstance(v, ast.Name) and v.id not in self.rd.locals:
            facts.append((is_atom(v.id, ast.Name(id=v.id, ctx=ast.Load())), True))
        if not facts:
            return state
        out = set()
        for disj in state:
            d = dict(disj)
            for at, pol in facts:
                d[self._key(at)] = pol
            out.add(frozenset(d.items()))
        return frozenset(out)

    def _solve(self):
        cfg = self.cfg
        self._mut: Dict[Node, Set[str]] = {}
        entry_marks = []
        if self.want is not None:
            for v in sorted(self.rd.locals):
                if self.want(f"{v}:="):
                    t = f"{v}:=entry"
                    self.atom_ast[t] = ast.Name(id=v, ctx=ast.Load())
                    self.atom_names[t] = {v}
                    entry_marks.append((t, True))
        empty = frozenset([frozenset(entry_marks)])
        self.OUT[cfg.entry] = empty
        self.IN[cfg.entry] = empty
        # reverse post-order priorities: a node is revisited only after its (forward) predecessors settled
        order: Dict[Node, int] = {}
        seen = set()
        stack = [(cfg.entry, iter([s for s, _k in cfg.entry.succ]))]
        seen.add(cfg.entry)
        post = []
        while stack:
            node, it = stack[-1]
            for s in it:
                if s not in seen:
                    seen.add(s)
                    stack.append((s, iter([x for x, _k in s.succ])))
                    break
            else:
                post.append(node)
                stack.pop()
        for i, node in enumerate(reversed(post)):
            order[node] = i
        import heapq
        work = []
        inq = set()

        def push(x):
            if x not in inq:
                inq.add(x)
                heapq.heappush(work, (order.get(x, 1 << 30), x.id, x))
        for s0, _k in cfg.entry.succ:
            push(s0)
        steps = 0
        limit = 200 * max(1, len(cfg.nodes))
        self.steps = 0
        while work:
            steps += 1
            self.steps = steps
            n = heapq.heappop(work)[2]
            inq.discard(n)
            if steps > limit:
                # give up on precision everywhere that is still moving
                self.collapsed.update(cfg.nodes)
            acc = set()
            seen_pred = False
            for p, k in n.pred:
                src = self.OUT.get(p) if (k == N or p is cfg.entry) else self.IN.get(p)
                if src is None:
                    continue
                seen_pred = True
                if k != N and p is not cfg.entry:
                    # the statement raised: its own bindings may or may not have happened
                    src = self._kill(src, self.rd.gen.get(p) or (), self._mutates(p))
                acc |= src
            if not seen_pred:
                continue
            new_in = frozenset(acc)
            if n in self.collapsed or len(new_in) > self.BOUND:
                self.collapsed.add(n)
                new_in = self._collapse(new_in) if new_in else new_in
                old = self.IN.get(n)
                if old:
                    new_in = self._collapse(new_in | old)
            if n.kind == "branch" and not n.is_for and n.test is not None:
                atoms = decompose(n.test, n.polarity)
                outs = set()
                for disj in new_in:
                    r = self._add(disj, atoms)
                    if r is not None:
                        outs.add(r)
                new_out = frozenset(outs)
            else:
                g = self.rd.gen.get(n)
                mut = self._mutates(n)
                new_out = self._kill(new_in, g or (), mut) if (g or mut) else new_in
                if g and self.want is not None:
                    new_out = self._value_atoms(n, g, new_out)
                if g and self.want is not None:
                    # per-path reaching definitions for the names a rule asks for: the pseudo-atom `<name>:=<node id>`
                    marks = []
                    for v in g:
                        if self.want(f"{v}:="):
                            t = f"{v}:={n.id}"
                            if t not in self.atom_ast:
                                self.atom_ast[t] = ast.Name(id=v, ctx=ast.Load())
                                self.atom_names[t] = {v}
                            marks.append((t, True))
                    if marks:
                        new_out = frozenset(frozenset(set(d) | set(marks)) for d in new_out)
            in_changed = new_in != self.IN.get(n)
            out_changed = new_out != self.OUT.get(n)
            if in_changed or out_changed:
                self.IN[n] = new_in
                self.OUT[n] = new_out
                for s, k in n.succ:
                    if (k == N and out_changed) or (k != N and in_changed) or self.IN.get(s) is None:
                        push(s)

    # -- queries ----
    def disjuncts_at(self, n: Node) -> List[Dict[str, bool]]:
        """one dict (atom text -> polarity) per class of paths reaching n; [] when n is unreachable"""
        st = self.IN.get(n)
        if st is None:
            return []
        return [dict(d) for d in st]

    def every_path(self, n: Node, pred) -> bool:
        """pred(dict atom text -> polarity, atom_ast) holds for every disjunct of n (vacuously for unreachable nodes)"""
        return all(pred(d) for d in self.disjuncts_at(n))

    def must(self, n: Node) -> Dict[str, bool]:
        ds = self.disjuncts_at(n)
        if not ds:
            return {}
        common = set(ds[0].items())
        for d in ds[1:]:
            common &= set(d.items())
        return dict(common)


class FuncAnalysis:
    def __init__(self, finfo):
        self.f = finfo
        self.cfg = CFG(finfo.node)
        self.rd = ReachingDefs(self.cfg, finfo.params)
        self.facts = Facts(self.cfg, self.rd)
        self._paths = {}
        self.rd.refine = self._refine_defs

    @property
    def paths(self) -> "PathFacts":
        return self.paths_for(None)

    def paths_for_name(self, name: str) -> "PathFacts":
        """path-sensitive facts tracking every test that mentions `name` and the per-path definition of `name`"""
        key = ("name", name)
        if key not in self._paths:
            import re as _re
            pat = _re.compile(r"(?<![A-Za-z0-9_.])" + _re.escape(name) + r"(?![A-Za-z0-9_])")
            self._paths[key] = PathFacts(self.cfg, self.rd, lambda t: bool(pat.search(t)))
        return self._paths[key]

    def _refine_defs(self, n: Node, name: str, ds: List[Node]) -> List[Node]:
        if os.environ.get("UTVERIF_NO_PATHS") or len(self.cfg.nodes) > 400:
            return ds
        pf = self.paths_for_name(name)
        if any(c.kind not in ("raise", "exit") for c in pf.collapsed):
            return ds           # precision was given up somewhere: every definition stays
        dj = pf.disjuncts_at(n)
        if not dj:
            return ds
        alive = set()
        for d in dj:
            marks = [t for t, p in d.items() if p and t.startswith(name + ":=")]
            if len(marks) != 1:
                return ds       # not tracked on this path
            alive.add(marks[0].split(":=", 1)[1])
        out = [d for d in ds if (("entry" if d is self.cfg.entry else str(d.id)) in alive)]
        return out or ds

    def paths_all(self) -> "PathFacts":
        """path-sensitive facts tracking every test and the per-path definition of every local (small functions only)"""
        key = ("all",)
        if key not in self._paths:
            self._paths[key] = PathFacts(self.cfg, self.rd, lambda t: True)
        return self._paths[key]

    def paths_for(self, words) -> "PathFacts":
        """path-sensitive facts tracking the correlated tests of the function and every atom whose text contains one of
        `words` (a tuple of substrings)"""
        key = tuple(sorted(words)) if words else None
        if key not in self._paths:
            want = (lambda t, ws=key: any(w in t for w in ws)) if key else None
            self._paths[key] = PathFacts(self.cfg, self.rd, want)
        return self._paths[key]

    def nodes_with_ast(self, pred) -> List[Node]:
        return [n for n in self.cfg.nodes if n.ast is not None and pred(n)]

    def node_exprs(self, n: Node) -> List[ast.AST]:
        """expressions evaluated at node n"""
        a = n.ast
        if a is None:
            return []
        if n.kind == "with":
            return [i.context_expr for i in a.items]
        if n.kind == "handler":
            return [a.type] if a.type is not None else []
        if isinstance(a, FuncNode):
            return list(a.decorator_list) + list(a.args.defaults) + [d for d in a.args.kw_defaults if d is not None]
        if isinstance(a, ast.ClassDef):
            return list(a.decorator_list) + list(a.bases)
        return [a]

    def calls_at(self, n: Node) -> List[ast.Call]:
        out = []
        for e in self.node_exprs(n):
            for sub in walk_shallow(e):
                if isinstance(sub, ast.Call):
                    out.append(sub)
        return out

    def all_calls(self) -> List[Tuple[Node, ast.Call]]:
        out = []
        for n in self.cfg.nodes:
            if n.kind in ("stmt", "test", "iter", "with"):
                for c in self.calls_at(n):
                    out.append((n, c))
        return out


_ANALYSES: Dict[int, FuncAnalysis] = {}


def analysis(finfo) -> FuncAnalysis:
    a = _ANALYSES.get(id(finfo))
    if a is None:
        a = FuncAnalysis(finfo)
        _ANALYSES[id(finfo)] = a
    return a
