"""Program model: modules, classes, functions (including nested ones) of the repo under analysis."""
import ast
import hashlib
import os
from typing import Dict, List, Optional, Iterator, Tuple


class AnalysisError(Exception):
    """The analysis itself cannot proceed (vanished anchor, unknown construct).  Exit code 2."""


FuncNode = (ast.FunctionDef, ast.AsyncFunctionDef)


class _Unparser(ast._Unparser):
    def visit_InlineBlock(self, node):          # helper body analysed in place (inline.py): print its statements
        for st in node.body:
            self.traverse(st)


def unparse(node) -> str:
    if node is None:
        return "None"
    try:
        return _Unparser().visit(node)
    except Exception:  # pragma: no cover
        try:
            return ast.unparse(node)
        except Exception:
            return ast.dump(node)


def norm_stmt(node) -> str:
    """normalised one-line text of a statement head (never the line number) used to key findings"""
    if isinstance(node, (ast.If, ast.While)):
        s = ("if " if isinstance(node, ast.If) else "while ") + unparse(node.test)
    elif isinstance(node, (ast.For, ast.AsyncFor)):
        s = "for " + unparse(node.target) + " in " + unparse(node.iter)
    elif isinstance(node, (ast.With, ast.AsyncWith)):
        s = "with " + ", ".join(unparse(i) for i in node.items)
    elif isinstance(node, ast.Try):
        s = "try"
    elif isinstance(node, ast.ExceptHandler):
        s = "except " + unparse(node.type) + (f" as {node.name}" if node.name else "")
    elif isinstance(node, FuncNode + (ast.ClassDef,)):
        s = "def " + node.name
    else:
        s = unparse(node)
    s = " ".join(s.split())
    return s if len(s) <= 160 else s[:157] + "..."


class FuncInfo:
    def __init__(self, module: "ModuleInfo", node, qualname: str, cls: Optional["ClassInfo"],
                 parent: Optional["FuncInfo"]):
        self.module = module
        self.node = node
        self.qualname = qualname          # e.g. "Rule.parse" or "ClassParser.make_setter.setter"
        self.cls = cls
        self.parent = parent
        self.name = node.name
        self.children: Dict[str, "FuncInfo"] = {}
        self.is_async = isinstance(node, ast.AsyncFunctionDef)

    @property
    def ref(self) -> str:
        return f"{self.module.name}:{self.qualname}"

    @property
    def file(self) -> str:
        return self.module.relpath

    @property
    def params(self) -> List[str]:
        a = self.node.args
        names = [x.arg for x in getattr(a, "posonlyargs", [])] + [x.arg for x in a.args]
        if a.vararg:
            names.append(a.vararg.arg)
        names += [x.arg for x in a.kwonlyargs]
        if a.kwarg:
            names.append(a.kwarg.arg)
        return names

    def param_default(self, name: str):
        a = self.node.args
        pos = list(getattr(a, "posonlyargs", [])) + list(a.args)
        defaults = [None] * (len(pos) - len(a.defaults)) + list(a.defaults)
        for p, d in zip(pos, defaults):
            if p.arg == name:
                return d
        for p, d in zip(a.kwonlyargs, a.kw_defaults):
            if p.arg == name:
                return d
        return None

    def decorator_texts(self) -> List[str]:
        return [unparse(d) for d in self.node.decorator_list]

    def loc(self, node=None) -> str:
        n = node if node is not None else self.node
        return f"{self.file}:{getattr(n, 'lineno', '?')}"

    def __repr__(self):
        return f"<Func {self.ref}>"


class ClassInfo:
    def __init__(self, module: "ModuleInfo", node: ast.ClassDef, qualname: str):
        self.module = module
        self.node = node
        self.qualname = qualname
        self.name = node.name
        self.methods: Dict[str, FuncInfo] = {}
        self.base_names = [unparse(b) for b in node.bases]
        self.assigns: Dict[str, ast.AST] = {}     # class-level simple assignments name -> value
        for st in node.body:
            if isinstance(st, ast.Assign) and len(st.targets) == 1 and isinstance(st.targets[0], ast.Name):
                self.assigns[st.targets[0].id] = st.value
            elif isinstance(st, ast.AnnAssign) and isinstance(st.target, ast.Name) and st.value is not None:
                self.assigns[st.target.id] = st.value

    @property
    def ref(self):
        return f"{self.module.name}:{self.qualname}"


def _blocks(node):
    for field in ("body", "orelse", "finalbody"):
        b = getattr(node, field, None)
        if isinstance(b, list) and b and isinstance(b[0], ast.stmt):
            yield b
    for h in getattr(node, "handlers", []) or []:
        yield h.body
    for c in getattr(node, "cases", []) or []:
        yield c.body


def _functions_of(tree):
    fs = getattr(tree, "_utv_functions", None)
    if fs is None:
        fs = [n for n in ast.walk(tree) if isinstance(n, (ast.FunctionDef, ast.AsyncFunctionDef))]
        try:
            tree._utv_functions = fs
        except Exception:
            pass
    return fs


PURE_BUILTINS = ("type", "isinstance", "issubclass", "callable")


def _pure_builtin_call(x) -> bool:
    return isinstance(x, ast.Call) and isinstance(x.func, ast.Name) and x.func.id in PURE_BUILTINS and not x.keywords \
        and not any(isinstance(a, ast.Starred) for a in x.args)


def split_parallel_assignments(tree) -> int:
    """canonical form: `a, b = x, y` (names on the left, as many expressions on the right, no target read on the right, no
    call on the right other than type / isinstance / issubclass / callable) is analysed as `a = x; b = y`"""
    count = 0
    for node in ast.walk(tree):
        for field in ("body", "orelse", "finalbody"):
            blk = getattr(node, field, None)
            if not (isinstance(blk, list) and blk and isinstance(blk[0], ast.stmt)):
                continue
            i = 0
            while i < len(blk):
                st = blk[i]
                if isinstance(st, ast.Assign) and len(st.targets) == 1 and isinstance(st.targets[0], ast.Tuple) \
                        and isinstance(st.value, ast.Tuple) and len(st.targets[0].elts) == len(st.value.elts) \
                        and all(isinstance(e, ast.Name) for e in st.targets[0].elts):
                    tnames = {e.id for e in st.targets[0].elts}
                    ok = len(tnames) == len(st.targets[0].elts)
                    for v in st.value.elts:
                        for x in ast.walk(v):
                            if isinstance(x, ast.Name) and x.id in tnames:
                                ok = False
                            elif isinstance(x, ast.Call) and not _pure_builtin_call(x):
                                ok = False
                            elif isinstance(x, (ast.Lambda, ast.NamedExpr, ast.Await, ast.Yield, ast.YieldFrom, ast.Starred,
                                                ast.ListComp, ast.SetComp, ast.DictComp, ast.GeneratorExp)):
                                ok = False
                    if ok:
                        new = [ast.copy_location(ast.Assign(targets=[t], value=v), st)
                               for t, v in zip(st.targets[0].elts, st.value.elts)]
                        blk[i:i + 1] = new
                        i += len(new)
                        count += 1
                        continue
                i += 1
    return count


class _FoldConstants(ast.NodeTransformer):
    """`None is None`, `not True`, `a if True else b`, `True and x` - left behind when a helper is analysed in place with a
    constant argument"""
    def __init__(self):
        self.count = 0

    def visit_Compare(self, node):
        self.generic_visit(node)
        if len(node.ops) == 1 and isinstance(node.left, ast.Constant) and isinstance(node.comparators[0], ast.Constant):
            a, b = node.left.value, node.comparators[0].value
            simple = lambda v: v is None or isinstance(v, (bool, int, str))
            if simple(a) and simple(b):
                op = node.ops[0]
                r = None
                if isinstance(op, ast.Is):
                    r = (a is b) if (a is None or b is None or isinstance(a, bool) or isinstance(b, bool)) else None
                elif isinstance(op, ast.IsNot):
                    r = (a is not b) if (a is None or b is None or isinstance(a, bool) or isinstance(b, bool)) else None
                elif isinstance(op, ast.Eq):
                    r = a == b
                elif isinstance(op, ast.NotEq):
                    r = a != b
                if r is not None:
                    self.count += 1
                    return ast.copy_location(ast.Constant(value=bool(r)), node)
        return node

    def visit_UnaryOp(self, node):
        self.generic_visit(node)
        if isinstance(node.op, ast.Not) and isinstance(node.operand, ast.Constant):
            self.count += 1
            return ast.copy_location(ast.Constant(value=not node.operand.value), node)
        return node

    def visit_IfExp(self, node):
        self.generic_visit(node)
        if isinstance(node.test, ast.Constant):
            self.count += 1
            return node.body if node.test.value else node.orelse
        return node

    def visit_BoolOp(self, node):
        self.generic_visit(node)
        is_and = isinstance(node.op, ast.And)
        vals = []
        for i, v in enumerate(node.values):
            last = i == len(node.values) - 1
            if isinstance(v, ast.Constant):
                truthy = bool(v.value)
                if truthy == is_and and not last:
                    self.count += 1
                    continue            # `True and x` -> x ; `False or x` -> x
                if truthy != is_and:
                    vals.append(v)      # `False and ..` / `True or ..` decides: the rest is never evaluated
                    if not last:
                        self.count += 1
                    break
            vals.append(v)
        if len(vals) == 1:
            return vals[0]
        node.values = vals
        return node


def _never_none(e) -> bool:
    if isinstance(e, ast.Constant):
        return e.value is not None
    if isinstance(e, (ast.JoinedStr, ast.List, ast.Tuple, ast.Dict, ast.Set, ast.ListComp, ast.DictComp, ast.SetComp)):
        return True
    if isinstance(e, ast.IfExp):
        return _never_none(e.body) and _never_none(e.orelse)
    if isinstance(e, ast.BinOp):
        return _never_none(e.left) and _never_none(e.right)
    return False


def fold_nonnone_tests(tree) -> int:
    """`x is None` / `x is not None` for a local x whose every binding in the function is a literal that is not None"""
    count = 0
    for fn in _functions_of(tree):
        a = fn.args
        params = {x.arg for x in a.posonlyargs + a.args + a.kwonlyargs}
        if a.vararg:
            params.add(a.vararg.arg)
        if a.kwarg:
            params.add(a.kwarg.arg)
        good: Dict[str, bool] = {}
        own = list(_walk_function(fn))
        for n in own:
            if isinstance(n, ast.Assign) and len(n.targets) == 1 and isinstance(n.targets[0], ast.Name):
                t = n.targets[0].id
                good[t] = good.get(t, True) and _never_none(n.value)
        # any other kind of store disqualifies the name
        simple_targets = {id(n.targets[0]) for n in own if isinstance(n, ast.Assign) and len(n.targets) == 1
                          and isinstance(n.targets[0], ast.Name)}
        for n in own:
            if isinstance(n, ast.Name) and isinstance(n.ctx, (ast.Store, ast.Del)) and id(n) not in simple_targets:
                good[n.id] = False
            elif isinstance(n, ast.ExceptHandler) and n.name:
                good[n.name] = False
            elif isinstance(n, (ast.Global, ast.Nonlocal)):
                for nm in n.names:
                    good[nm] = False
        names = {k for k, v in good.items() if v and k not in params}
        if not names:
            continue
        for n in own:
            if isinstance(n, ast.Compare) and len(n.ops) == 1 and isinstance(n.left, ast.Name) and n.left.id in names \
                    and isinstance(n.ops[0], (ast.Is, ast.IsNot)) and isinstance(n.comparators[0], ast.Constant) \
                    and n.comparators[0].value is None:
                val = isinstance(n.ops[0], ast.IsNot)
                # rewrite in place as `<bool> is True` is clumsy: turn the node into a comparison of constants, folded next
                n.left = ast.copy_location(ast.Constant(value=0), n.left)
                count += 1
    return count


def fold_constants(tree) -> int:
    fold_nonnone_tests(tree)
    f = _FoldConstants()
    f.visit(tree)
    return f.count


def unroll_literal_loops(tree) -> int:
    """canonical form: `for T in (e1, .., ek): BODY` over a tuple / list display of at most 4 elements, BODY without break /
    continue / else, is analysed as `T = e1; BODY; ..; T = ek; BODY` (a table-driven loop and its written-out form are the
    same code); the elements are pure (names, constants, attribute chains, displays of those)"""
    import copy as _copy
    count = 0

    def pure(e) -> bool:
        return all(isinstance(x, (ast.Name, ast.Constant, ast.Attribute, ast.Tuple, ast.List, ast.expr_context))
                   for x in ast.walk(e))

    def plain(body) -> bool:
        stack = list(body)
        while stack:
            st = stack.pop()
            if isinstance(st, (ast.Break, ast.Continue)):
                return False
            if isinstance(st, (ast.For, ast.AsyncFor, ast.While, ast.FunctionDef, ast.AsyncFunctionDef, ast.ClassDef)):
                continue
            for field in ("body", "orelse", "finalbody"):
                b = getattr(st, field, None)
                if isinstance(b, list) and b and isinstance(b[0], ast.stmt):
                    stack.extend(b)
            for h in getattr(st, "handlers", []) or []:
                stack.extend(h.body)
        return True
    for node in ast.walk(tree):
        for field in ("body", "orelse", "finalbody"):
            blk = getattr(node, field, None)
            if not (isinstance(blk, list) and blk and isinstance(blk[0], ast.stmt)):
                continue
            i = 0
            while i < len(blk):
                st = blk[i]
                if isinstance(st, ast.For) and isinstance(st.iter, (ast.Tuple, ast.List)) and 1 <= len(st.iter.elts) <= 4 \
                        and not st.orelse and len(st.body) <= 8 and all(pure(e) for e in st.iter.elts) and plain(st.body) \
                        and not any(isinstance(e, ast.Starred) for e in st.iter.elts):
                    tnames = {x.id for x in ast.walk(st.target) if isinstance(x, ast.Name)}
                    if not any(isinstance(x, ast.Name) and x.id in tnames for e in st.iter.elts for x in ast.walk(e)):
                        new = []
                        for e in st.iter.elts:
                            asg = ast.Assign(targets=[_copy.deepcopy(st.target)], value=e)
                            ast.copy_location(asg, st)
                            ast.fix_missing_locations(asg)
                            new.append(asg)
                            new.extend(_copy.deepcopy(x) for x in st.body)
                        blk[i:i + 1] = new
                        count += 1
                        continue        # re-examine from the same index (nested literal loops)
                i += 1
    return count


def propagate_attribute_aliases(tree) -> int:
    """canonical form: `x = a.b.c` (a pure attribute chain; x bound exactly once in the function; the root `a` is self /
    cls / a parameter that is never rebound / a local bound exactly once) - every later read of `x` is analysed as
    `a.b.c`.  Hoisting repeated attribute reads into locals, and the reverse, are among the most common
    behaviour-preserving edits; the rules read option and field attributes, so they see the chain either way."""
    count = 0
    _ALIASABLE = (ast.Attribute, ast.UnaryOp, ast.BoolOp, ast.Compare, ast.Name, ast.Call)
    for fn in _functions_of(tree):
        stores = {}
        nested_stores = set()
        own_nodes = list(_walk_function(fn))
        if not any(isinstance(n, ast.Assign) and len(n.targets) == 1 and isinstance(n.targets[0], ast.Name)
                   and isinstance(n.value, _ALIASABLE) for n in own_nodes):
            continue
        for n in own_nodes:
            if isinstance(n, ast.Name) and isinstance(n.ctx, (ast.Store, ast.Del)):
                stores[n.id] = stores.get(n.id, 0) + 1
            elif isinstance(n, ast.ExceptHandler) and n.name:
                stores[n.name] = stores.get(n.name, 0) + 1
            elif isinstance(n, (ast.Global, ast.Nonlocal)):
                for nm in n.names:
                    stores[nm] = stores.get(nm, 0) + 2
        for n in own_nodes:
            if isinstance(n, (ast.FunctionDef, ast.AsyncFunctionDef, ast.Lambda)):
                for x in ast.walk(n):
                    if isinstance(x, ast.Name) and isinstance(x.ctx, ast.Store):
                        nested_stores.add(x.id)
                    elif isinstance(x, ast.Nonlocal):
                        nested_stores.update(x.names)
        a = fn.args
        params = {x.arg for x in a.posonlyargs + a.args + a.kwonlyargs}
        if a.vararg:
            params.add(a.vararg.arg)
        if a.kwarg:
            params.add(a.kwarg.arg)
        aliases = {}
        for n in own_nodes:
            if isinstance(n, ast.Assign) and len(n.targets) == 1 and isinstance(n.targets[0], ast.Name) \
                    and isinstance(n.value, _ALIASABLE):
                if isinstance(n.value, ast.Call) and not _pure_builtin_call(n.value):
                    continue
                t = n.targets[0].id
                if t in params or stores.get(t) != 1 or t in nested_stores:
                    continue
                # pure: attribute chains, stable names, constants, not / and / or / comparisons - nothing is called
                pure = True
                roots = set()
                for x in ast.walk(n.value):
                    if isinstance(x, ast.Name):
                        if not (x.id in PURE_BUILTINS and isinstance(x.ctx, ast.Load)) and x.id not in ("str", "int", "float",
                                "bool", "list", "tuple", "dict", "set", "bytes", "type", "object", "Decimal"):
                            roots.add(x.id)
                    elif _pure_builtin_call(x) or isinstance(x, ast.Tuple):
                        pass
                    elif not isinstance(x, (ast.Attribute, ast.Constant, ast.UnaryOp, ast.BoolOp, ast.Compare, ast.expr_context,
                                            ast.boolop, ast.unaryop, ast.cmpop)):
                        pure = False
                        break
                if not pure or not roots or (isinstance(n.value, ast.UnaryOp) and not isinstance(n.value.op, ast.Not)):
                    continue
                stable = True
                for r in roots:
                    if r == t or r in nested_stores:
                        stable = False
                    elif r in ("self", "cls", "mcs"):
                        pass
                    elif r in params:
                        # a parameter is bound at entry: any further binding makes it unstable
                        if stores.get(r, 0) != 0:
                            stable = False
                    elif stores.get(r, 0) > 1:
                        stable = False
                if not stable:
                    continue
                aliases[t] = (n, n.value)
        if not aliases:
            continue
        # resolve chains of aliases (options = context.options; policy = options.invalid_items)
        import copy as _copy

        def expand(e, depth=0):
            if depth > 5:
                return e
            class _S(ast.NodeTransformer):
                def visit_Name(self_inner, node):
                    if isinstance(node.ctx, ast.Load) and node.id in aliases:
                        return ast.copy_location(expand(_copy.deepcopy(aliases[node.id][1]), depth + 1), node)
                    return node
            return _S().visit(e)

        class _Subst(ast.NodeTransformer):
            def __init__(self):
                self.skip = {id(v[0]) for v in aliases.values()}

            def visit_Assign(self_inner, node):
                if id(node) in self_inner.skip:
                    # keep the defining statement, but canonicalise its own right-hand side through earlier aliases
                    node.value = expand(node.value)
                    return node
                self_inner.generic_visit(node)
                return node

            def visit_Name(self_inner, node):
                nonlocal count
                if isinstance(node.ctx, ast.Load) and node.id in aliases:
                    count += 1
                    return ast.copy_location(expand(_copy.deepcopy(aliases[node.id][1])), node)
                return node

            def visit_FunctionDef(self_inner, node):
                if node is fn:
                    self_inner.generic_visit(node)
                return node          # nested definitions keep their own names (closures read the alias later)

            visit_AsyncFunctionDef = visit_FunctionDef

            def visit_Lambda(self_inner, node):
                return node
        _Subst().visit(fn)
    return count


def _walk_function(fn):
    """nodes of a function without descending into nested function / class / lambda bodies"""
    stack = list(ast.iter_child_nodes(fn))
    while stack:
        n = stack.pop()
        yield n
        if isinstance(n, (ast.FunctionDef, ast.AsyncFunctionDef, ast.ClassDef, ast.Lambda)):
            continue
        stack.extend(ast.iter_child_nodes(n))


def expand_conditional_callees(tree) -> int:
    """canonical form: `f = A if c else B` ... `S[f(args)]` (f bound once, used once, as the callee of a call that is the
    whole value of a return / assignment / expression statement of the same block) is analysed as
    `if c: S[A(args)] else: S[B(args)]`"""
    import copy as _copy
    count = 0
    for fn in _functions_of(tree):
        if not any(isinstance(n, ast.Assign) and isinstance(n.value, ast.IfExp) for n in ast.walk(fn)):
            continue
        stores, loads = {}, {}
        for n in ast.walk(fn):
            if isinstance(n, ast.Name):
                d = stores if isinstance(n.ctx, (ast.Store, ast.Del)) else loads
                d[n.id] = d.get(n.id, 0) + 1
        stack = [fn]
        while stack:
            node = stack.pop()
            for blk in _blocks(node):
                i = 0
                while i < len(blk):
                    a = blk[i]
                    if isinstance(a, ast.Assign) and len(a.targets) == 1 and isinstance(a.targets[0], ast.Name) \
                            and isinstance(a.value, ast.IfExp) and stores.get(a.targets[0].id) == 1 \
                            and loads.get(a.targets[0].id) == 1 \
                            and all(isinstance(x, (ast.Attribute, ast.Name)) for x in (a.value.body, a.value.orelse)):
                        t = a.targets[0].id
                        for j in range(i + 1, len(blk)):
                            b = blk[j]
                            call = b.value if isinstance(b, (ast.Return, ast.Assign, ast.Expr)) else None
                            if isinstance(call, ast.Call) and isinstance(call.func, ast.Name) and call.func.id == t:
                                arms = []
                                for callee in (a.value.body, a.value.orelse):
                                    st = _copy.deepcopy(b)
                                    st.value.func = _copy.deepcopy(callee)
                                    arms.append(st)
                                new = ast.If(test=a.value.test, body=[arms[0]], orelse=[arms[1]])
                                ast.copy_location(new, b)
                                ast.fix_missing_locations(new)
                                blk[j] = new
                                del blk[i]
                                count += 1
                                i -= 1
                                break
                            if any(isinstance(x, ast.Name) and x.id == t for x in ast.walk(b)):
                                break
                    i += 1
                for st in blk:
                    if not isinstance(st, (ast.FunctionDef, ast.AsyncFunctionDef, ast.ClassDef)):
                        stack.append(st)
    return count


def split_conditional_returns(tree) -> int:
    """canonical form: `return a if c else b` is analysed as `if c: return a` / `else: return b` (and nested ones likewise)"""
    count = 0

    def split(st):
        nonlocal count
        if isinstance(st, ast.Return) and isinstance(st.value, ast.IfExp):
            v = st.value
            a = ast.copy_location(ast.Return(value=v.body), st)
            b = ast.copy_location(ast.Return(value=v.orelse), st)
            new = ast.If(test=v.test, body=split(a), orelse=split(b))
            ast.copy_location(new, st)
            count += 1
            return [new]
        return [st]
    for fn in _functions_of(tree):
        if not any(isinstance(n, ast.Return) and isinstance(n.value, ast.IfExp) for n in ast.walk(fn)):
            continue
        stack = [fn]
        while stack:
            node = stack.pop()
            for blk in _blocks(node):
                i = 0
                while i < len(blk):
                    r = split(blk[i])
                    if r[0] is not blk[i]:
                        blk[i:i + 1] = r
                    i += 1
                for st in blk:
                    if not isinstance(st, (ast.FunctionDef, ast.AsyncFunctionDef, ast.ClassDef)):
                        stack.append(st)
    return count


def inline_return_temporaries(tree) -> int:
    """canonical form, applied to every function before analysis: `tmp = <expr>` immediately followed by `return tmp`,
    where tmp is a local that is bound nowhere else and read nowhere else, is the same program as `return <expr>`.
    The rules are written against the second spelling; the first is a common behaviour-preserving refactoring."""
    count = 0
    for fn in _functions_of(tree):
        stores, loads = {}, {}
        for n in ast.walk(fn):
            if isinstance(n, ast.Name):
                d = stores if isinstance(n.ctx, (ast.Store, ast.Del)) else loads
                d[n.id] = d.get(n.id, 0) + 1
            elif isinstance(n, (ast.Global, ast.Nonlocal)):
                for nm in n.names:
                    stores[nm] = stores.get(nm, 0) + 2
        params = {a.arg for a in fn.args.posonlyargs + fn.args.args + fn.args.kwonlyargs}
        # pass 1: adjacent (tmp = e; return tmp) / (tmp = e; if [not] tmp:) pairs per name
        # pass 2: inline the names all of whose uses are such pairs
        def use_of(b):
            """the temporary a statement consumes as its whole head: `return t`, `if t:`, `if not t:`"""
            if isinstance(b, ast.Return) and isinstance(b.value, ast.Name):
                return b.value.id
            if isinstance(b, ast.If):
                t = b.test
                if isinstance(t, ast.UnaryOp) and isinstance(t.op, ast.Not):
                    t = t.operand
                if isinstance(t, ast.Name):
                    return t.id
            return None
        pairs = {}
        blocks = []
        stack = [fn]
        while stack:
            node = stack.pop()
            for blk in _blocks(node):
                blocks.append(blk)
                for i in range(len(blk) - 1):
                    a, b = blk[i], blk[i + 1]
                    if isinstance(a, ast.Assign) and len(a.targets) == 1 and isinstance(a.targets[0], ast.Name) \
                            and use_of(b) == a.targets[0].id and a.targets[0].id not in params:
                        pairs[a.targets[0].id] = pairs.get(a.targets[0].id, 0) + 1
                for st in blk:
                    if not isinstance(st, (ast.FunctionDef, ast.AsyncFunctionDef, ast.ClassDef)):
                        stack.append(st)
        ok = {nm for nm, k in pairs.items() if stores.get(nm) == k and loads.get(nm) == k}
        for blk in blocks:
            i = 0
            while i + 1 < len(blk):
                a, b = blk[i], blk[i + 1]
                if isinstance(a, ast.Assign) and len(a.targets) == 1 and isinstance(a.targets[0], ast.Name) \
                        and a.targets[0].id in ok and use_of(b) == a.targets[0].id:
                    if isinstance(b, ast.Return):
                        new = ast.Return(value=a.value)
                        ast.copy_location(new, a)
                        new.end_lineno, new.end_col_offset = getattr(b, "end_lineno", None), getattr(b, "end_col_offset", None)
                        blk[i:i + 2] = [new]
                    else:
                        if isinstance(b.test, ast.UnaryOp):
                            b.test.operand = a.value
                        else:
                            b.test = a.value
                        del blk[i]
                    count += 1
                    continue
                i += 1
    return count


class ModuleInfo:
    def __init__(self, name: str, path: str, relpath: str, source: str):
        self.name = name
        self.path = path
        self.relpath = relpath
        self.source = source
        self.tree = ast.parse(source, filename=path)
        unroll_literal_loops(self.tree)
        split_parallel_assignments(self.tree)
        self.propagated_aliases = propagate_attribute_aliases(self.tree)
        self.expanded_callees = expand_conditional_callees(self.tree)
        self.inlined_returns = inline_return_temporaries(self.tree)
        self.split_returns = split_conditional_returns(self.tree)
        self.functions: Dict[str, FuncInfo] = {}
        self.classes: Dict[str, ClassInfo] = {}
        self.assigns: Dict[str, ast.AST] = {}
        self.imports: Dict[str, str] = {}   # local name -> dotted origin
        self._index()

    def _index(self):
        for st in self.tree.body:
            if isinstance(st, ast.Assign) and len(st.targets) == 1 and isinstance(st.targets[0], ast.Name):
                self.assigns[st.targets[0].id] = st.value
            elif isinstance(st, ast.AnnAssign) and isinstance(st.target, ast.Name) and st.value is not None:
                self.assigns[st.target.id] = st.value
        for st in ast.walk(self.tree):
            if isinstance(st, ast.ImportFrom):
                base = "." * (st.level or 0) + (st.module or "")
                for al in st.names:
                    self.imports[al.asname or al.name] = f"{base}.{al.name}" if base else al.name
            elif isinstance(st, ast.Import):
                for al in st.names:
                    self.imports[al.asname or al.name.split(".")[0]] = al.name
        self._walk(self.tree.body, prefix="", cls=None, parent=None)

    def _walk(self, body, prefix, cls, parent):
        for st in body:
            self._walk_stmt(st, prefix, cls, parent)

    def _walk_stmt(self, st, prefix, cls, parent):
        if isinstance(st, FuncNode):
            q = prefix + st.name
            fi = FuncInfo(self, st, q, cls if parent is None else None, parent)
            # a later definition with the same qualname (e.g. two `transform_callable`) gets a suffix
            key = q
            k = 2
            while key in self.functions:
                key = f"{q}#{k}"
                k += 1
            fi.qualname = key
            self.functions[key] = fi
            if cls is not None and parent is None:
                cls.methods.setdefault(st.name, fi)
            if parent is not None:
                parent.children.setdefault(st.name, fi)
            self._walk(st.body, prefix=key + ".", cls=None, parent=fi)
        elif isinstance(st, ast.ClassDef):
            q = prefix + st.name
            ci = ClassInfo(self, st, q)
            self.classes.setdefault(q, ci)
            self._walk(st.body, prefix=q + ".", cls=ci, parent=parent)
        else:
            # compound statements may nest defs (if isinstance(Callable, type): @register def ...)
            for fld in ("body", "orelse", "finalbody"):
                sub = getattr(st, fld, None)
                if isinstance(sub, list):
                    self._walk(sub, prefix, cls, parent)
            for h in getattr(st, "handlers", []) or []:
                self._walk(h.body, prefix, cls, parent)


class Repo:
    def __init__(self, root: str, package: str = "utype"):
        self.root = root
        self.package = package
        self.modules: Dict[str, ModuleInfo] = {}
        pkg_dir = os.path.join(root, package)
        if not os.path.isdir(pkg_dir):
            raise AnalysisError(f"package directory {pkg_dir} not found")
        h = hashlib.sha256()
        for dirpath, dirnames, filenames in sorted(os.walk(pkg_dir)):
            dirnames[:] = sorted(d for d in dirnames if d != "__pycache__")
            for fn in sorted(filenames):
                if not fn.endswith(".py"):
                    continue
                path = os.path.join(dirpath, fn)
                rel = os.path.relpath(path, root)
                modname = rel[:-3].replace(os.sep, ".")
                if modname.endswith(".__init__"):
                    modname = modname[: -len(".__init__")]
                with open(path, "r", encoding="utf-8") as f:
                    src = f.read()
                h.update(rel.encode())
                h.update(src.encode())
                try:
                    self.modules[modname] = ModuleInfo(modname, path, rel, src)
                except SyntaxError as e:
                    raise AnalysisError(f"cannot parse {rel}: {e}")
        self.digest = h.hexdigest()
        # canonical form: helpers that are new with respect to the confirmed baseline are analysed inside their callers
        from . import inline
        self.inlined = inline.apply(self)
        if self.inlined:
            # the bindings made by the inliner are aliases / temporaries like any other
            for m in self.modules.values():
                fold_constants(m.tree)
                propagate_attribute_aliases(m.tree)
                inline_return_temporaries(m.tree)
                split_conditional_returns(m.tree)

    # ---- anchors ---------------------------------------------------------------------------
    def module(self, name: str) -> ModuleInfo:
        m = self.modules.get(name)
        if m is None:
            raise AnalysisError(f"anchor module {name} not found")
        return m

    def func(self, module: str, qualname: str) -> FuncInfo:
        m = self.module(module)
        f = m.functions.get(qualname)
        if f is None:
            raise AnalysisError(f"anchor function {module}:{qualname} not found")
        return f

    def maybe_func(self, module: str, qualname: str) -> Optional[FuncInfo]:
        m = self.modules.get(module)
        return m.functions.get(qualname) if m else None

    def cls(self, module: str, qualname: str) -> ClassInfo:
        m = self.module(module)
        c = m.classes.get(qualname)
        if c is None:
            raise AnalysisError(f"anchor class {module}:{qualname} not found")
        return c

    def all_functions(self) -> Iterator[FuncInfo]:
        for m in self.modules.values():
            yield from m.functions.values()

    def methods_named(self, name: str) -> List[FuncInfo]:
        return [f for f in self.all_functions() if f.name == name and f.cls is not None]

    def functions_named(self, name: str) -> List[FuncInfo]:
        return [f for f in self.all_functions() if f.name == name]


# ---- small AST helpers -----------------------------------------------------------------------

def dotted(node) -> Optional[str]:
    """'a.b.c' for Name/Attribute chains, 'super().x' for super calls, else None"""
    parts = []
    while True:
        if isinstance(node, ast.Attribute):
            parts.append(node.attr)
            node = node.value
        elif isinstance(node, ast.Name):
            parts.append(node.id)
            break
        elif isinstance(node, ast.Call) and isinstance(node.func, ast.Name) and node.func.id == "super":
            parts.append("super()")
            break
        else:
            return None
    return ".".join(reversed(parts))


def call_name(call: ast.Call) -> Optional[str]:
    return dotted(call.func)


def call_attr(call: ast.Call) -> Optional[str]:
    """last attribute / function name of a call: `a.b.c(...)` -> 'c', `f(...)` -> 'f'"""
    f = call.func
    if isinstance(f, ast.Attribute):
        return f.attr
    if isinstance(f, ast.Name):
        return f.id
    return None


def kwarg(call: ast.Call, name: str):
    for k in call.keywords:
        if k.arg == name:
            return k.value
    return None


def is_const(node, value) -> bool:
    return isinstance(node, ast.Constant) and node.value is value or (
        isinstance(node, ast.Constant) and not isinstance(value, bool) and value is not None
        and type(node.value) == type(value) and node.value == value)


def kwarg_given(call, name):
    """the keyword argument unless it is the literal None (an explicit `options=None` is no argument at all)"""
    v = kwarg(call, name)
    if isinstance(v, ast.Constant) and v.value is None:
        return None
    return v


def names_in(node) -> set:
    return {n.id for n in ast.walk(node) if isinstance(n, ast.Name)}


def iter_calls(node) -> Iterator[ast.Call]:
    """all Call nodes in `node`, not descending into nested function/lambda/class definitions"""
    stack = [node]
    while stack:
        n = stack.pop()
        if isinstance(n, ast.Call):
            yield n
        for c in ast.iter_child_nodes(n):
            if isinstance(c, FuncNode + (ast.Lambda, ast.ClassDef)):
                continue
            stack.append(c)


def walk_shallow(node) -> Iterator[ast.AST]:
    """ast.walk that does not descend into nested function/class definitions (lambdas are descended)"""
    stack = [node]
    first = True
    while stack:
        n = stack.pop()
        if not first and isinstance(n, FuncNode + (ast.ClassDef,)):
            continue
        first = False
        yield n
        stack.extend(ast.iter_child_nodes(n))


def stmt_exprs(st) -> List[ast.AST]:
    """the expressions evaluated *by the head* of a statement (not its nested blocks)"""
    if isinstance(st, (ast.If, ast.While)):
        return [st.test]
    if isinstance(st, (ast.For, ast.AsyncFor)):
        return [st.iter]
    if isinstance(st, (ast.With, ast.AsyncWith)):
        return [i.context_expr for i in st.items]
    if isinstance(st, ast.Try):
        return []
    if isinstance(st, FuncNode):
        return list(st.decorator_list) + [d for d in st.args.defaults] + [d for d in st.args.kw_defaults if d]
    if isinstance(st, ast.ClassDef):
        return list(st.decorator_list) + list(st.bases)
    if isinstance(st, ast.ExceptHandler):
        return [st.type] if st.type else []
    return [st]
