"""Engine self-check on embedded snippets (independent of /repo): CFG shape, exception edges, the may-return
model of handle_error, dominators, branch facts, reaching definitions.  Run by MANIFEST.setup_cmd."""
import ast
import sys
import textwrap

from .cfg import CFG, ReachingDefs, Facts, N, E
from .model import unparse


def _fn(src):
    return ast.parse(textwrap.dedent(src)).body[0]


def _node(cfg, text):
    for n in cfg.nodes:
        if n.ast is not None and n.kind in ("stmt", "test", "iter", "with") and " ".join(unparse(n.ast).split()).startswith(text):
            return n
    raise AssertionError(f"node {text!r} not found")


def t_handle_error_fallthrough():
    f = _fn("""
    def p(value, context):
        for i, x in enumerate(value):
            try:
                y = conv(x)
            except Exception as e:
                context.handle_error(Err(e))
            use(y)
        return 1
    """)
    c = CFG(f)
    he = _node(c, "context.handle_error")
    use = _node(c, "use(y)")
    assert (use, N) in he.succ, "handle_error must be able to return"
    assert any(k == E for s, k in he.succ), "handle_error must be able to raise"
    rd = ReachingDefs(c, ["value", "context"])
    defs = rd.defs_of(use, "y")
    assert c.entry in defs, "on the fall-through path y may be unbound/stale"


def t_forced_never_returns():
    f = _fn("""
    def p(value, context):
        try:
            y = conv(value)
        except Exception as e:
            context.handle_error(Err(e), force_raise=True)
        return y
    """)
    c = CFG(f)
    he = _node(c, "context.handle_error")
    assert not any(k == N for s, k in he.succ)
    ret = _node(c, "return y")
    rd = ReachingDefs(c, ["value", "context"])
    assert c.entry not in rd.defs_of(ret, "y")


def t_containment():
    f = _fn("""
    def p(v):
        try:
            a = g(v)
        except (TypeError, ValueError):
            pass
        try:
            b = g(v)
        except Exception:
            pass
        c = g(v)
    """)
    c = CFG(f)
    a, b, cc = _node(c, "a = g"), _node(c, "b = g"), _node(c, "c = g")
    assert c.raise_exit in [s for s, k in a.succ if k == E]
    assert c.raise_exit not in [s for s, k in b.succ if k == E]
    assert c.raise_exit in [s for s, k in cc.succ if k == E]


def t_facts_and_dominance():
    f = _fn("""
    def p(x, o):
        if x is None:
            return 0
        if not o.flag or x > 3:
            raise ValueError
        y = x
        while abs(y) > 10:
            y /= 10
        return y
    """)
    c = CFG(f)
    rd = ReachingDefs(c, ["x", "o"])
    fx = Facts(c, rd)
    y = _node(c, "y = x")
    atoms = {(unparse(a), p) for a, p in fx.atoms_at(y)}
    assert ("x is None", False) in atoms and ("o.flag", True) in atoms and ("x > 3", False) in atoms, atoms
    w = _node(c, "abs(y) > 10")
    ent = {(unparse(a), p) for a, p in fx.atoms_entering_loop(w)}
    assert ("x > 3", False) in ent
    ret = _node(c, "return y")
    assert c.dominates(y, ret) and not c.dominates(_node(c, "y /= 10"), ret)


def t_kill():
    f = _fn("""
    def p(x):
        if x:
            x = g()
            use(x)
    """)
    c = CFG(f)
    rd = ReachingDefs(c, ["x"])
    fx = Facts(c, rd)
    u = _node(c, "use(x)")
    assert not fx.atoms_at(u), "fact about x must be killed by the rebinding"


TESTS = [t_handle_error_fallthrough, t_forced_never_returns, t_containment, t_facts_and_dominance, t_kill]


def run_fixtures() -> int:
    bad = 0
    for t in TESTS:
        try:
            t()
            print(f"fixture {t.__name__}: ok")
        except Exception as e:  # noqa
            bad += 1
            print(f"fixture {t.__name__}: FAILED {type(e).__name__}: {e}")
    return 2 if bad else 0


if __name__ == "__main__":
    sys.exit(run_fixtures())
