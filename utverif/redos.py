"""Exponential-backtracking analysis of regular expressions (static: the pattern is data, nothing is matched).

A backtracking matcher needs exponential time on some input iff the pattern's automaton has *exponential degree of
ambiguity* (EDA, Weber & Seidl 1991): a state q and a word w with two different paths q -w-> q.  Then w^n has 2^n accepting
attempts and a failing suffix makes the matcher try them all.  Decision procedure used here:

  1. the pattern is parsed with the standard library's regex parser (re._parser) - the same tree the matcher compiles;
  2. a Thompson automaton is built from the tree (counted repeats unrolled up to a bound, lookarounds and anchors as
     epsilon, back-references unsupported -> Unsupported), epsilon transitions are eliminated, the automaton is trimmed;
  3. in the product automaton (pairs of states moving on a common character) EDA holds iff some strongly connected
     component contains a diagonal pair (q, q) and an off-diagonal pair (p, p'), p != p'.

Characters are abstracted by a finite sample alphabet that contains a representative of every class the pattern can tell
apart: every literal, both ends / a midpoint / both outer neighbours of every range, representatives of the categories
(\\d \\s \\w and their complements), and characters no pattern element mentions.
"""
import re._parser as sre
import re._constants as srec
from typing import Dict, FrozenSet, List, Optional, Set, Tuple

REPEAT_UNROLL = 6          # {m,n} is unrolled exactly up to this many copies; larger counts are treated as this many
MAXREPEAT = srec.MAXREPEAT


class Unsupported(Exception):
    pass


def _sample_alphabet(tree) -> List[str]:
    chars: Set[int] = set()

    def add(c):
        if 0 <= c <= 0x10FFFF:
            chars.add(c)

    def walk(items):
        for op, arg in items:
            name = str(op)
            if name in ("LITERAL", "NOT_LITERAL"):
                add(arg); add(arg + 1); add(arg - 1)
            elif name == "IN":
                for o2, a2 in arg:
                    n2 = str(o2)
                    if n2 == "LITERAL":
                        add(a2); add(a2 + 1); add(a2 - 1)
                    elif n2 == "RANGE":
                        lo, hi = a2
                        for c in (lo, hi, (lo + hi) // 2, lo - 1, hi + 1):
                            add(c)
            elif name == "SUBPATTERN":
                walk(arg[3])
            elif name in ("MAX_REPEAT", "MIN_REPEAT", "POSSESSIVE_REPEAT"):
                walk(arg[2])
            elif name == "BRANCH":
                for alt in arg[1]:
                    walk(alt)
            elif name in ("ASSERT", "ASSERT_NOT"):
                walk(arg[1])
            elif name == "ATOMIC_GROUP":
                walk(arg)
    walk(tree)
    for c in "05aZ _\n\t#é中":
        chars.add(ord(c))
    return [chr(c) for c in sorted(chars)]


def _in_category(cat: str, ch: str) -> bool:
    c = cat.replace("CATEGORY_", "").replace("UNI_", "").replace("LOC_", "")
    neg = c.startswith("NOT_")
    c = c[4:] if neg else c
    if c == "DIGIT":
        r = ch.isdigit()
    elif c == "SPACE":
        r = ch.isspace()
    elif c == "WORD":
        r = ch.isalnum() or ch == "_"
    elif c == "LINEBREAK":
        r = ch == "\n"
    else:
        raise Unsupported(f"character category {cat}")
    return r != neg


def _class_set(items, alphabet: List[str], ignorecase: bool) -> FrozenSet[str]:
    negate = False
    out = set()
    for op, arg in items:
        name = str(op)
        if name == "NEGATE":
            negate = True
        elif name == "LITERAL":
            out |= {ch for ch in alphabet if ord(ch) == arg or (ignorecase and ch.lower() == chr(arg).lower())}
        elif name == "RANGE":
            lo, hi = arg
            out |= {ch for ch in alphabet if lo <= ord(ch) <= hi
                    or (ignorecase and (lo <= ord(ch.lower()) <= hi or lo <= ord(ch.upper()[:1] or ch) <= hi))}
        elif name == "CATEGORY":
            out |= {ch for ch in alphabet if _in_category(str(arg), ch)}
        else:
            raise Unsupported(f"class item {name}")
    return frozenset(set(alphabet) - out) if negate else frozenset(out)


class NFA:
    def __init__(self):
        self.n = 0
        self.eps: Dict[int, Set[int]] = {}
        self.trans: Dict[int, List[Tuple[FrozenSet[str], int]]] = {}

    def new(self) -> int:
        self.n += 1
        self.eps[self.n - 1] = set()
        self.trans[self.n - 1] = []
        return self.n - 1


def _build(nfa: NFA, items, alphabet, flags) -> Tuple[int, int]:
    """fragment for a sequence: returns (start, end)"""
    ic = bool(flags & srec.SRE_FLAG_IGNORECASE)
    dotall = bool(flags & srec.SRE_FLAG_DOTALL)
    start = cur = nfa.new()
    for op, arg in items:
        name = str(op)
        if name == "LITERAL":
            s = frozenset(ch for ch in alphabet if ord(ch) == arg or (ic and ch.lower() == chr(arg).lower()))
            nxt = nfa.new(); nfa.trans[cur].append((s, nxt)); cur = nxt
        elif name == "NOT_LITERAL":
            s = frozenset(ch for ch in alphabet if ord(ch) != arg)
            nxt = nfa.new(); nfa.trans[cur].append((s, nxt)); cur = nxt
        elif name == "ANY":
            s = frozenset(ch for ch in alphabet if dotall or ch != "\n")
            nxt = nfa.new(); nfa.trans[cur].append((s, nxt)); cur = nxt
        elif name == "IN":
            s = _class_set(arg, alphabet, ic)
            nxt = nfa.new(); nfa.trans[cur].append((s, nxt)); cur = nxt
        elif name == "SUBPATTERN":
            a, b = _build(nfa, arg[3], alphabet, flags)
            nfa.eps[cur].add(a); cur = b
        elif name == "ATOMIC_GROUP":
            a, b = _build(nfa, arg, alphabet, flags)
            nfa.eps[cur].add(a); cur = b
        elif name == "BRANCH":
            end = nfa.new()
            for alt in arg[1]:
                a, b = _build(nfa, alt, alphabet, flags)
                nfa.eps[cur].add(a); nfa.eps[b].add(end)
            cur = end
        elif name in ("MAX_REPEAT", "MIN_REPEAT", "POSSESSIVE_REPEAT"):
            lo, hi, body = arg
            unbounded = hi == MAXREPEAT
            lo_u = min(lo, REPEAT_UNROLL)
            for _ in range(lo_u):
                a, b = _build(nfa, body, alphabet, flags)
                nfa.eps[cur].add(a); cur = b
            if unbounded:
                a, b = _build(nfa, body, alphabet, flags)
                loop = nfa.new()
                nfa.eps[cur].add(loop); nfa.eps[loop].add(a); nfa.eps[b].add(loop); cur = loop
            else:
                extra = min(hi - lo, max(0, REPEAT_UNROLL - lo_u))
                end = nfa.new()
                nfa.eps[cur].add(end)
                for _ in range(extra):
                    a, b = _build(nfa, body, alphabet, flags)
                    nfa.eps[cur].add(a); nfa.eps[b].add(end); cur = b
                cur = end
        elif name in ("AT",):
            pass
        elif name in ("ASSERT", "ASSERT_NOT"):
            pass        # lookarounds consume nothing: epsilon (an over-approximation of the language, sound for paths)
        elif name in ("GROUPREF", "GROUPREF_EXISTS"):
            raise Unsupported("back-reference")
        else:
            raise Unsupported(f"regex node {name}")
    return start, cur


def _eps_closure(nfa: NFA, s: int) -> Set[int]:
    seen = {s}
    stack = [s]
    while stack:
        x = stack.pop()
        for y in nfa.eps[x]:
            if y not in seen:
                seen.add(y); stack.append(y)
    return seen


def analyse(pattern: str, flags: int = 0) -> Optional[str]:
    """None when the pattern has no exponential ambiguity; otherwise a witness description (a pumpable word)"""
    tree = sre.parse(pattern, flags)
    flags = tree.state.flags | flags
    alphabet = _sample_alphabet(tree)
    nfa = NFA()
    start, end = _build(nfa, tree, alphabet, flags)
    clos = {s: _eps_closure(nfa, s) for s in range(nfa.n)}
    # epsilon-free moves between "consuming" states: q -ch-> r  iff  q' in closure(q), (set, r) in trans[q'], ch in set
    # Distinct consuming transitions are distinct parse steps; epsilon paths between the same pair are merged (the
    # matcher's own empty-loop guard makes pure-epsilon ambiguity harmless).
    moves: Dict[int, List[Tuple[FrozenSet[str], int]]] = {}
    for q in range(nfa.n):
        out = []
        for q2 in clos[q]:
            for s, r in nfa.trans[q2]:
                if s:
                    out.append((s, r, q2))
        moves[q] = out
    # states that matter: targets of consuming transitions (and the start)
    live = {start} | {r for q in moves for (_s, r, _q2) in moves[q]}
    # trim: reachable from start
    reach = set()
    stack = [start]
    while stack:
        x = stack.pop()
        if x in reach:
            continue
        reach.add(x)
        for _s, r, _ in moves[x]:
            stack.append(r)
    live &= reach
    # product graph over pairs of live states (each consuming transition has its own target state, so a pair of different
    # targets is a pair of different parse steps)
    edges: Dict[Tuple[int, int], Set[Tuple[int, int]]] = {}
    for p in live:
        for q in live:
            out = set()
            for s1, r1, _o1 in moves[p]:
                for s2, r2, _o2 in moves[q]:
                    if s1 & s2:
                        out.add((r1, r2))
            edges[(p, q)] = out

    def succ(node):
        return edges.get(node, set())

    # Tarjan SCC
    index = {}
    low = {}
    onstack = set()
    st = []
    sccs = []
    counter = [0]
    import sys
    sys.setrecursionlimit(max(10000, sys.getrecursionlimit()))

    def strong(v):
        work = [(v, iter(succ(v)))]
        index[v] = low[v] = counter[0]; counter[0] += 1
        st.append(v); onstack.add(v)
        while work:
            node, it = work[-1]
            advanced = False
            for w in it:
                if w not in index:
                    index[w] = low[w] = counter[0]; counter[0] += 1
                    st.append(w); onstack.add(w)
                    work.append((w, iter(succ(w))))
                    advanced = True
                    break
                elif w in onstack:
                    low[node] = min(low[node], index[w])
            if advanced:
                continue
            work.pop()
            if work:
                parent = work[-1][0]
                low[parent] = min(low[parent], low[node])
            if low[node] == index[node]:
                comp = []
                while True:
                    w = st.pop(); onstack.discard(w); comp.append(w)
                    if w == node:
                        break
                sccs.append(comp)

    for p in live:
        if (p, p) not in index:
            strong((p, p))
    for comp in sccs:
        if len(comp) == 1 and comp[0] not in succ(comp[0]):
            continue
        diag = [c for c in comp if c[0] == c[1]]
        off = [c for c in comp if c[0] != c[1]]
        if diag and off:
            return f"two different ways to match the same repeated text (automaton states {diag[0][0]} / {off[0]})"
    return None
