"""Finite-domain evaluation of small predicate functions of the repo (checker's own AST evaluator).

The functions evaluated are side-effect free decision procedures (``ParserField.is_no_input`` & co.): straight-line
``if`` / ``return`` / simple assignments over attributes of ``self`` and ``options``.  They are interpreted by this
module over an explicitly enumerated finite domain of abstract field declarations; nothing of the repo is imported
or executed.  Any construct outside the whitelisted subset is an AnalysisError (exit 2), never a guess."""
import ast
from types import SimpleNamespace

from .model import AnalysisError, unparse

_BUILTINS = {"str": str, "list": list, "set": set, "tuple": tuple, "bool": bool, "dict": dict, "int": int,
             "isinstance": isinstance, "callable": callable, "True": True, "False": False, "None": None}


class _Return(Exception):
    def __init__(self, value):
        self.value = value


class _Break(Exception):
    pass


class _Continue(Exception):
    pass


class Evaluator:
    def __init__(self, func_node, env: dict, method_table=None, max_steps=2000):
        self.f = func_node
        self.env = dict(env)
        self.methods = method_table or {}
        self.steps = 0
        self.max_steps = max_steps

    def run(self):
        try:
            self.block(self.f.body)
        except _Return as r:
            return r.value
        return None

    def block(self, stmts):
        for st in stmts:
            self.steps += 1
            if self.steps > self.max_steps:
                raise AnalysisError("evaluator step bound exceeded")
            if isinstance(st, ast.Return):
                raise _Return(self.ev(st.value) if st.value is not None else None)
            elif isinstance(st, ast.If):
                self.block(st.body if self.ev(st.test) else st.orelse)
            elif isinstance(st, ast.Assign) and len(st.targets) == 1 and isinstance(st.targets[0], ast.Name):
                self.env[st.targets[0].id] = self.ev(st.value)
            elif isinstance(st, ast.Expr) and isinstance(st.value, ast.Constant):
                continue   # docstring
            elif isinstance(st, ast.Pass):
                continue
            elif st.__class__.__name__ == "InlineBlock":
                # a helper analysed in place (inline.py): its returns bind the result / are the caller's returns
                try:
                    self.block(st.body)
                except _Return as r:
                    if st.tail is True:
                        raise
                    if st.tail == "raise":
                        raise _Return(("raise", str(r.value)[:40]))
                    if isinstance(st.result, tuple):
                        vals = list(r.value) if isinstance(r.value, (tuple, list)) else [r.value] * len(st.result)
                        for k, v in zip(st.result, vals):
                            self.env[k] = v
                    elif st.result:
                        self.env[st.result] = r.value
            elif isinstance(st, ast.Try):
                # the modelled domain raises nothing: the body runs, then else / finally
                self.block(st.body)
                self.block(st.orelse)
                self.block(st.finalbody)
            elif isinstance(st, ast.Raise):
                raise _Return(("raise", unparse(st.exc)[:40] if st.exc is not None else ""))
            elif isinstance(st, ast.For) and isinstance(st.target, ast.Name) and isinstance(st.iter, (ast.Tuple, ast.List)):
                # a loop over a literal sequence: finitely many iterations, evaluated in order
                broke = False
                for item in st.iter.elts:
                    self.env[st.target.id] = self.ev(item)
                    try:
                        self.block(st.body)
                    except _Break:
                        broke = True
                        break
                    except _Continue:
                        continue
                if not broke:
                    self.block(st.orelse)
            elif isinstance(st, ast.Break):
                raise _Break()
            elif isinstance(st, ast.Continue):
                raise _Continue()
            else:
                raise AnalysisError(f"evaluator: unsupported statement `{unparse(st)[:60]}`")

    def ev(self, e):
        if isinstance(e, ast.Constant):
            return e.value
        if isinstance(e, ast.Name):
            if e.id in self.env:
                return self.env[e.id]
            if e.id in _BUILTINS:
                return _BUILTINS[e.id]
            raise AnalysisError(f"evaluator: unknown name {e.id}")
        if isinstance(e, ast.Attribute):
            base = self.ev(e.value)
            if isinstance(base, SimpleNamespace):
                if not hasattr(base, e.attr):
                    sub = self.methods.get(e.attr) if base is self.env.get("self") else None
                    if sub is not None and any(unparse(d) in ("property", "cached_property", "functools.cached_property")
                                               for d in getattr(sub, "decorator_list", [])):
                        # a property of the modelled object, read from the class's own source
                        return Evaluator(sub, {"self": base}, self.methods, self.max_steps).run()
                    consts = self.methods.get("__class_assigns__") or {}
                    if base is self.env.get("self") and e.attr in consts:
                        return self.ev(consts[e.attr])          # a class-level constant of the modelled object's class
                    raise AnalysisError(f"evaluator: attribute {unparse(e)} is outside the modelled domain")
                return getattr(base, e.attr)
            raise AnalysisError(f"evaluator: attribute access on {type(base).__name__}")
        if isinstance(e, ast.BoolOp):
            if isinstance(e.op, ast.And):
                v = True
                for x in e.values:
                    v = self.ev(x)
                    if not v:
                        return v
                return v
            v = False
            for x in e.values:
                v = self.ev(x)
                if v:
                    return v
            return v
        if isinstance(e, ast.UnaryOp) and isinstance(e.op, ast.Not):
            return not self.ev(e.operand)
        if isinstance(e, ast.IfExp):
            return self.ev(e.body) if self.ev(e.test) else self.ev(e.orelse)
        if isinstance(e, ast.Tuple):
            return tuple(self.ev(x) for x in e.elts)
        if isinstance(e, ast.Compare):
            left = self.ev(e.left)
            for op, c in zip(e.ops, e.comparators):
                right = self.ev(c)
                if isinstance(op, ast.In):
                    r = left in right
                elif isinstance(op, ast.NotIn):
                    r = left not in right
                elif isinstance(op, ast.Is):
                    r = left is right
                elif isinstance(op, ast.IsNot):
                    r = left is not right
                elif isinstance(op, ast.Eq):
                    r = left == right
                elif isinstance(op, ast.NotEq):
                    r = left != right
                else:
                    raise AnalysisError(f"evaluator: unsupported comparison in `{unparse(e)}`")
                if not r:
                    return False
                left = right
            return True
        if isinstance(e, ast.Call):
            if isinstance(e.func, ast.Name) and e.func.id in ("isinstance", "callable", "bool") and not e.keywords:
                return _BUILTINS[e.func.id](*[self.ev(a) for a in e.args])
            if isinstance(e.func, ast.Name) and e.func.id in self.env and callable(self.env[e.func.id]) and not e.keywords:
                # a callable of the modelled domain (the `unprovided` sentinel, copy_value ...)
                return self.env[e.func.id](*[self.ev(a) for a in e.args])
            if isinstance(e.func, ast.Attribute) and isinstance(e.func.value, ast.Name) and e.func.value.id == "self":
                name = e.func.attr
                target = getattr(self.env["self"], name, None)
                if callable(target) and not isinstance(target, SimpleNamespace):
                    return target(*[self.ev(a) for a in e.args])
                if name in self.methods:
                    sub = self.methods[name]
                    params = [a.arg for a in sub.args.args]
                    args = [self.ev(a) for a in e.args]
                    env = {"self": self.env["self"]}
                    for p, v in zip(params[1:], args):
                        env[p] = v
                    for k in e.keywords:
                        env[k.arg] = self.ev(k.value)
                    return Evaluator(sub, env, self.methods, self.max_steps).run()
            raise AnalysisError(f"evaluator: unsupported call `{unparse(e)[:60]}`")
        if isinstance(e, ast.NamedExpr) and isinstance(e.target, ast.Name):
            v = self.ev(e.value)
            self.env[e.target.id] = v
            return v
        raise AnalysisError(f"evaluator: unsupported expression `{unparse(e)[:60]}`")
