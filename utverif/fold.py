"""Constant folding of table literals (dict / tuple / list / set / str / number literals, names bound to other
literals in the same or an imported repo module, ``**spread``).  Names of types stay symbolic (``Sym``).
Nothing is imported or executed; an expression that is not a literal table folds to ``Sym`` or raises."""
import ast
from typing import Optional

from .model import AnalysisError, ModuleInfo, Repo, dotted, unparse


class Sym:
    """a symbolic (unevaluated) leaf: a type name, an attribute chain, a call"""
    __slots__ = ("name",)

    def __init__(self, name: str):
        self.name = name

    def __eq__(self, other):
        return isinstance(other, Sym) and other.name == self.name

    def __hash__(self):
        return hash(("Sym", self.name))

    def __repr__(self):
        return f"<{self.name}>"


def resolve_module(repo: Repo, mod: ModuleInfo, origin: str) -> Optional[str]:
    """dotted import origin ('.constant', 'utype.parser.rule.SEQ_TYPES', '..utils.x') -> repo module name"""
    if origin.startswith("."):
        level = len(origin) - len(origin.lstrip("."))
        base = mod.name.split(".")
        is_pkg = mod.path.endswith("__init__.py")
        if not is_pkg:
            base = base[:-1]
        base = base[: len(base) - (level - 1)] if level > 1 else base
        rest = origin.lstrip(".")
        return ".".join(base + ([rest] if rest else []))
    return origin


class Folder:
    def __init__(self, repo: Repo):
        self.repo = repo
        self._stack = set()

    def module_value(self, modname: str, name: str):
        m = self.repo.module(modname)
        if name not in m.assigns:
            raise AnalysisError(f"table {modname}:{name} not found")
        return self.fold(m.assigns[name], m)

    def _name(self, name: str, mod: ModuleInfo):
        key = (mod.name, name)
        if key in self._stack:
            return Sym(name)
        if name in mod.assigns:
            self._stack.add(key)
            try:
                return self.fold(mod.assigns[name], mod)
            finally:
                self._stack.discard(key)
        if name in mod.imports:
            origin = resolve_module(self.repo, mod, mod.imports[name])
            if origin and "." in origin:
                m2, attr = origin.rsplit(".", 1)
                if m2 in self.repo.modules and attr in self.repo.modules[m2].assigns:
                    return self._name(attr, self.repo.modules[m2])
        return Sym(name)

    def fold(self, e, mod: ModuleInfo):
        if isinstance(e, ast.Constant):
            return e.value
        if isinstance(e, ast.Name):
            return self._name(e.id, mod)
        if isinstance(e, ast.Attribute):
            d = dotted(e)
            if d:
                head, _, attr = d.rpartition(".")
                # module alias:  constant.X  where `constant` is an imported repo module
                if head in mod.imports:
                    origin = resolve_module(self.repo, mod, mod.imports[head])
                    if origin in self.repo.modules and attr in self.repo.modules[origin].assigns:
                        return self._name(attr, self.repo.modules[origin])
                return Sym(d)
            return Sym(unparse(e))
        if isinstance(e, (ast.Tuple, ast.List)):
            out = []
            for x in e.elts:
                if isinstance(x, ast.Starred):
                    v = self.fold(x.value, mod)
                    if isinstance(v, (tuple, list)):
                        out.extend(v)
                    else:
                        out.append(Sym("*" + unparse(x.value)))
                else:
                    out.append(self.fold(x, mod))
            return tuple(out) if isinstance(e, ast.Tuple) else list(out)
        if isinstance(e, ast.Set):
            return frozenset(self.fold(x, mod) for x in e.elts)
        if isinstance(e, ast.Dict):
            out = {}
            for k, v in zip(e.keys, e.values):
                if k is None:
                    sp = self.fold(v, mod)
                    if not isinstance(sp, dict):
                        raise AnalysisError(f"cannot fold dict spread {unparse(v)} in {mod.name}")
                    out.update(sp)
                else:
                    kk = self.fold(k, mod)
                    if isinstance(kk, list):
                        kk = tuple(kk)
                    out[kk] = self.fold(v, mod)
            return out
        if isinstance(e, ast.Call):
            t = unparse(e)
            if t == "type(None)":
                return Sym("NoneType")
            if isinstance(e.func, ast.Name) and e.func.id in ("dict",) and not e.args:
                return {k.arg: self.fold(k.value, mod) for k in e.keywords if k.arg}
            if isinstance(e.func, ast.Name) and e.func.id in ("int", "float") and len(e.args) == 1:
                v = self.fold(e.args[0], mod)
                if isinstance(v, (int, float)):
                    return int(v) if e.func.id == "int" else float(v)
            return Sym(t)
        if isinstance(e, ast.UnaryOp) and isinstance(e.op, ast.USub):
            v = self.fold(e.operand, mod)
            if isinstance(v, (int, float)):
                return -v
        if isinstance(e, ast.BinOp) and isinstance(e.op, ast.Add):
            a, b = self.fold(e.left, mod), self.fold(e.right, mod)
            if isinstance(a, (tuple, list, str)) and type(a) == type(b):
                return a + b
        return Sym(unparse(e))


def flatten_keys(d: dict) -> dict:
    """{('a','b'): v, 'c': w} -> {'a': v, 'b': v, 'c': w}"""
    out = {}
    for k, v in d.items():
        if isinstance(k, tuple):
            for kk in k:
                out[kk] = v
        else:
            out[k] = v
    return out
