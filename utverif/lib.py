"""Shared analyses: provenance, call classification, exception-family, call graph by name."""
import ast
from typing import Dict, List, Optional, Set, Tuple

from .cfg import FuncAnalysis, Node, analysis, N, E, is_handle_error_call, is_forced, stmt_call, target_names
from .model import (AnalysisError, FuncInfo, FuncNode, Repo, call_attr, call_name, dotted, kwarg, unparse,
                    walk_shallow, norm_stmt)


# ---- provenance ------------------------------------------------------------------------------------

class Origin:
    __slots__ = ("kind", "node", "at", "text", "base")

    def __init__(self, kind, node=None, at=None, text="", base=None):
        self.kind = kind      # param global call attr sub iter const exc def unbound expr unpack aug with
        self.node = node      # ast
        self.at = at          # cfg node of the definition
        self.text = text
        self.base = base      # list[Origin] of the base expression for sub/iter/unpack/attr

    def __repr__(self):
        return f"{self.kind}:{self.text}"


class Prov:
    def __init__(self, fa: FuncAnalysis):
        self.fa = fa
        self._memo = {}

    def of_name(self, n: Node, name: str, _stack=None) -> List[Origin]:
        key = (n.id, name)
        if key in self._memo:
            return self._memo[key]
        _stack = _stack or set()
        if key in _stack:
            return []
        _stack = _stack | {key}
        fa = self.fa
        out: List[Origin] = []
        if name not in fa.rd.locals:
            out.append(Origin("global", None, None, name))
            return out
        for d in fa.rd.defs_of(n, name):
            if d is fa.cfg.entry:
                if name in fa.f.params:
                    out.append(Origin("param", None, d, name))
                else:
                    out.append(Origin("unbound", None, d, name))
                continue
            out += self._def_origins(d, name, _stack)
        self._memo[key] = out
        return out

    def _def_origins(self, d: Node, name: str, _stack) -> List[Origin]:
        a = d.ast
        if d.kind == "stmt":
            if isinstance(a, ast.Assign):
                res = []
                for t in a.targets:
                    res += self._bind(d, t, a.value, name, _stack)
                return res
            if isinstance(a, ast.AnnAssign):
                return self._bind(d, a.target, a.value, name, _stack)
            if isinstance(a, ast.AugAssign):
                return [Origin("aug", a, d, unparse(a), self.of_expr(d, a.value, _stack))]
            if isinstance(a, (ast.Import, ast.ImportFrom) + FuncNode + (ast.ClassDef,)):
                return [Origin("def", a, d, name)]
            if isinstance(a, ast.Delete):
                return [Origin("unbound", a, d, name)]
        if d.kind == "with":
            for it in a.items:
                if it.optional_vars is not None and name in target_names(it.optional_vars):
                    return [Origin("with", it.context_expr, d, unparse(it.context_expr),
                                   self.of_expr(d, it.context_expr, _stack))]
        if d.kind == "handler":
            return [Origin("exc", a, d, name)]
        if d.kind == "branch" and d.is_for:
            st = d.stmt
            base = self.of_expr(d.pred[0][0], st.iter, _stack)
            if isinstance(st.target, ast.Name):
                return [Origin("iter", st.iter, d, unparse(st.iter), base)]
            return [Origin("iter-unpack", st.iter, d, f"{name} in {unparse(st.iter)}", base)]
        # walrus or unknown
        return [Origin("expr", a, d, name)]

    def _bind(self, d, target, value, name, _stack) -> List[Origin]:
        if isinstance(target, ast.Name):
            if target.id == name:
                return self.of_expr(d, value, _stack)
            return []
        if isinstance(target, (ast.Tuple, ast.List)):
            if name not in target_names(target):
                return []
            if isinstance(value, (ast.Tuple, ast.List)) and len(value.elts) == len(target.elts) \
                    and not any(isinstance(e, ast.Starred) for e in list(target.elts) + list(value.elts)):
                res = []
                for t, v in zip(target.elts, value.elts):
                    res += self._bind(d, t, v, name, _stack)
                return res
            return [Origin("unpack", value, d, unparse(value), self.of_expr(d, value, _stack))]
        return []

    def of_expr(self, n: Node, e, _stack=None) -> List[Origin]:
        _stack = _stack or set()
        if e is None:
            return [Origin("const", None, n, "None")]
        if isinstance(e, ast.Name):
            return self.of_name(n, e.id, _stack)
        if isinstance(e, ast.Constant):
            return [Origin("const", e, n, repr(e.value))]
        if isinstance(e, ast.Await):
            return self.of_expr(n, e.value, _stack)
        if isinstance(e, ast.Call):
            return [Origin("call", e, n, call_name(e) or unparse(e.func))]
        if isinstance(e, ast.IfExp):
            return self.of_expr(n, e.body, _stack) + self.of_expr(n, e.orelse, _stack)
        if isinstance(e, ast.BoolOp):
            res = []
            for v in e.values:
                res += self.of_expr(n, v, _stack)
            return res
        if isinstance(e, ast.Subscript):
            return [Origin("sub", e, n, unparse(e), self.of_expr(n, e.value, _stack))]
        if isinstance(e, ast.Attribute):
            return [Origin("attr", e, n, dotted(e) or unparse(e), self.of_expr(n, e.value, _stack))]
        if isinstance(e, ast.Starred):
            return self.of_expr(n, e.value, _stack)
        if isinstance(e, ast.NamedExpr):
            return self.of_expr(n, e.value, _stack)
        if isinstance(e, (ast.Tuple, ast.List, ast.Set, ast.Dict, ast.ListComp, ast.SetComp, ast.DictComp,
                          ast.GeneratorExp, ast.JoinedStr)):
            return [Origin("literal", e, n, type(e).__name__)]
        return [Origin("expr", e, n, type(e).__name__)]


_PROV: Dict[int, Prov] = {}


def prov(fa: FuncAnalysis) -> Prov:
    p = _PROV.get(id(fa))
    if p is None:
        p = Prov(fa)
        _PROV[id(fa)] = p
    return p


# ---- call classification -----------------------------------------------------------------------------

def is_transformer_expr(fa: FuncAnalysis, n: Node, e) -> bool:
    """e evaluates to a TypeTransformer instance: `X.transformer`, an alias of it, or `self` in TypeTransformer"""
    if isinstance(e, ast.Attribute) and e.attr == "transformer":
        return True
    if isinstance(e, ast.Name):
        if e.id == "self" and fa.f.cls is not None and fa.f.cls.name == "TypeTransformer":
            return True
        if e.id in ("transformer",) and e.id in fa.f.params and fa.f.cls is None:
            # registered converter functions take `transformer` as first parameter
            return True
        os_ = prov(fa).of_name(n, e.id)
        if os_ and all(o.kind == "attr" and o.text.endswith(".transformer") for o in os_):
            return True
    return False


def is_convert_call(fa: FuncAnalysis, n: Node, call: ast.Call) -> bool:
    f = call.func
    # X.transformer(v, t) / alias(v, t) / self(v, t)
    if is_transformer_expr(fa, n, f):
        return True
    if isinstance(f, ast.Attribute):
        if f.attr == "apply" and is_transformer_expr(fa, n, f.value):
            return True
        if f.attr.startswith("to_") and is_transformer_expr(fa, n, f.value):
            return True
        if f.attr in ("handle_unresolved",) and is_transformer_expr(fa, n, f.value):
            return True
    return False


def convert_value_arg(call: ast.Call):
    return call.args[0] if call.args else kwarg(call, "data")


def convert_type_arg(call: ast.Call):
    if len(call.args) >= 2:
        return call.args[1]
    return kwarg(call, "t")


PARSE_METHODS = {"parse_value", "parse_output_value", "parse_addition", "parse_pos_type"}


# ---- exception family ------------------------------------------------------------------------------

def exception_family(repo: Repo, root: str = "ParseError") -> Set[str]:
    m = repo.module("utype.utils.exceptions")
    fam = {root}
    changed = True
    while changed:
        changed = False
        for c in m.classes.values():
            if c.name in fam:
                continue
            for b in c.base_names:
                if b.split(".")[-1] in fam:
                    fam.add(c.name)
                    changed = True
                    break
    if root not in m.classes:
        raise AnalysisError("utype.utils.exceptions:ParseError not found")
    return fam


def exc_class_of_ctor(e) -> Optional[str]:
    """`exc.ParseError(...)` -> 'ParseError'"""
    if isinstance(e, ast.Call):
        d = dotted(e.func)
        if d:
            return d.split(".")[-1]
    return None


# ---- call graph by name ------------------------------------------------------------------------------

class CallIndex:
    """call sites of repo functions, resolved by (method) name.  A name defined by several classes resolves to
    the set of candidates (may-analysis)."""

    def __init__(self, repo: Repo):
        self.repo = repo
        self.by_name: Dict[str, List[FuncInfo]] = {}
        for f in repo.all_functions():
            self.by_name.setdefault(f.name, []).append(f)
        self._sites: Optional[Dict[str, List[Tuple[FuncInfo, ast.Call]]]] = None

    def sites_of(self, name: str) -> List[Tuple[FuncInfo, ast.Call]]:
        """(caller, call) for every call `...name(...)` in the repo"""
        if self._sites is None:
            self._sites = {}
            for f in self.repo.all_functions():
                for sub in walk_shallow(f.node):
                    if isinstance(sub, ast.Call):
                        a = call_attr(sub)
                        if a:
                            self._sites.setdefault(a, []).append((f, sub))
        return self._sites.get(name, [])

    def resolve(self, caller: FuncInfo, call: ast.Call) -> List[FuncInfo]:
        a = call_attr(call)
        if not a:
            return []
        cands = self.by_name.get(a, [])
        f = call.func
        if isinstance(f, ast.Name):
            # plain function call: nested function of the caller chain, or module-level function
            p = caller
            while p is not None:
                if a in p.children:
                    return [p.children[a]]
                p = p.parent
            mods = [c for c in cands if c.cls is None and c.parent is None]
            same = [c for c in mods if c.module is caller.module]
            return same or mods
        if isinstance(f, ast.Attribute):
            recv = f.value
            methods = [c for c in cands if c.cls is not None]
            if isinstance(recv, ast.Name) and recv.id in ("self", "cls", "mcs") :
                own = self._in_hierarchy(caller, a)
                if own:
                    return own
            if isinstance(recv, ast.Call) and isinstance(recv.func, ast.Name) and recv.func.id == "super":
                own = self._in_hierarchy(caller, a, skip_own=True)
                return own
            return methods
        return []

    def _class_of(self, f: FuncInfo):
        p = f
        while p is not None:
            if p.cls is not None:
                return p.cls
            p = p.parent
        return None

    def _in_hierarchy(self, caller: FuncInfo, name: str, skip_own=False) -> List[FuncInfo]:
        c = self._class_of(caller)
        if c is None:
            return []
        seen = set()
        order = []
        stack = [c]
        while stack:
            k = stack.pop(0)
            if k.ref in seen:
                continue
            seen.add(k.ref)
            order.append(k)
            for b in k.base_names:
                bn = b.split(".")[-1]
                for m in self.repo.modules.values():
                    if bn in m.classes:
                        stack.append(m.classes[bn])
        res = []
        for k in order:
            if skip_own and k is c:
                continue
            if name in k.methods:
                res.append(k.methods[name])
                break
        if not res and not skip_own:
            # subclasses may define it (self.rule_cls etc.) - give all candidates in subclasses
            pass
        return res


_CI: Dict[int, CallIndex] = {}


def call_index(repo: Repo) -> CallIndex:
    ci = _CI.get(id(repo))
    if ci is None:
        ci = CallIndex(repo)
        _CI[id(repo)] = ci
    return ci


# ---- misc ------------------------------------------------------------------------------------------

def enclosing_handler(fa: FuncAnalysis, n: Node) -> Optional[ast.ExceptHandler]:
    """innermost except-handler whose body lexically contains node n's statement"""
    target = n.stmt if n.stmt is not None else n.ast
    best = None
    for h in walk_shallow(fa.f.node):
        if isinstance(h, ast.ExceptHandler):
            for sub in h.body:
                for x in walk_shallow(sub):
                    if x is target:
                        if best is None or _contains(best, h):
                            best = h
    return best


def _contains(outer, inner) -> bool:
    return any(x is inner for x in ast.walk(outer))


def handler_nodes(fa: FuncAnalysis, h: ast.ExceptHandler) -> List[Node]:
    """cfg nodes of statements lexically inside handler h"""
    ids = set()
    for st in h.body:
        for x in walk_shallow(st):
            ids.add(id(x))
    out = []
    for n in fa.cfg.nodes:
        a = n.stmt if n.stmt is not None else n.ast
        if a is not None and id(a) in ids and n.kind != "handler":
            out.append(n)
        elif n.kind == "branch" and n.stmt is not None and id(n.stmt) in ids:
            out.append(n)
    return out


def try_of_handler(fa: FuncAnalysis, h: ast.ExceptHandler) -> Optional[ast.Try]:
    for t in walk_shallow(fa.f.node):
        if isinstance(t, ast.Try) and any(x is h for x in t.handlers):
            return t
    return None


def stmts_in(block: List[ast.stmt]) -> List[ast.AST]:
    out = []
    for st in block:
        out.extend(walk_shallow(st))
    return out


# attribute names that only the Options class declares (set once per run from the repo's source): a read of such an
# attribute through any local name is a read of the options, whatever the local is called
DISTINCT_OPTION_ATTRS: Set[str] = set()
# local names some function binds to `<expr>.options` / `<expr>.__options__` (a hoisted options object under any name)
OPTION_ALIASES: Set[str] = set()


def set_option_attrs(repo: Repo):
    DISTINCT_OPTION_ATTRS.clear()
    OPTION_ALIASES.clear()
    for m in repo.modules.values():
        for st in ast.walk(m.tree):
            if isinstance(st, ast.Assign) and len(st.targets) == 1 and isinstance(st.targets[0], ast.Name):
                v = st.value
                if isinstance(v, ast.BoolOp) and isinstance(v.op, ast.Or):
                    v = v.values[0]
                if isinstance(v, ast.Attribute) and v.attr in ("options", "__options__"):
                    OPTION_ALIASES.add(st.targets[0].id)
    OPTION_ALIASES.difference_update({"self", "cls"})
    try:
        O = repo.cls("utype.parser.options", "Options")
    except AnalysisError:
        return
    names = set()
    for st in O.node.body:
        if isinstance(st, ast.AnnAssign) and isinstance(st.target, ast.Name):
            names.add(st.target.id)
        elif isinstance(st, ast.Assign):
            names |= {t.id for t in st.targets if isinstance(t, ast.Name)}
    names = {n for n in names if not n.startswith("_") and n.upper() != n}
    other = set()
    for m in repo.modules.values():
        for c in m.classes.values():
            if c.name in ("Options", "RuntimeContext"):
                continue
            for st in ast.walk(c.node):
                if isinstance(st, ast.Attribute) and isinstance(st.value, ast.Name) and st.value.id == "self":
                    other.add(st.attr)
    DISTINCT_OPTION_ATTRS.update(names - other)


def opt_attr(e) -> Optional[str]:
    """`options.X` / `context.options.X` / `self.options.X` / `transformer.options.X` -> 'X'"""
    if isinstance(e, ast.Attribute):
        v = e.value
        if isinstance(v, ast.Name) and (v.id in ("options", "opts", "option", "opt", "_options") or v.id in OPTION_ALIASES):
            # the repo's convention for a hoisted `<ctx>.options`
            return e.attr
        if isinstance(v, ast.Name) and e.attr in DISTINCT_OPTION_ATTRS and v.id not in ("self", "cls", "field", "mcs"):
            # a local alias of the options under any name
            return e.attr
        if isinstance(v, ast.Attribute) and v.attr in ("options", "__options__"):
            return e.attr
    return None


# ---- string folding (patterns, templates) ------------------------------------------------------------

def fold_str(e, *scopes) -> Optional[str]:
    """the string a literal expression denotes: constants, `+` concatenation, f-strings and names whose values are found
    in the given scopes (dicts name -> ast node: class assigns, module assigns). None when it is not a compile-time string"""
    def look(name, depth):
        for sc in scopes:
            if name in sc:
                return go(sc[name], depth + 1)
        return None

    def go(x, depth=0):
        if depth > 8 or x is None:
            return None
        if isinstance(x, ast.Constant):
            return x.value if isinstance(x.value, str) else None
        if isinstance(x, ast.Name):
            return look(x.id, depth)
        if isinstance(x, ast.Attribute) and isinstance(x.value, ast.Name) and x.value.id in ("cls", "self"):
            return look(x.attr, depth)
        if isinstance(x, ast.BinOp) and isinstance(x.op, ast.Add):
            a, b = go(x.left, depth + 1), go(x.right, depth + 1)
            return a + b if a is not None and b is not None else None
        if isinstance(x, ast.JoinedStr):
            out = []
            for v in x.values:
                if isinstance(v, ast.Constant):
                    out.append(str(v.value))
                elif isinstance(v, ast.FormattedValue) and v.format_spec is None and v.conversion == -1:
                    s_ = go(v.value, depth + 1)
                    if s_ is None:
                        return None
                    out.append(s_)
                else:
                    return None
            return "".join(out)
        return None
    return go(e)


# ---- facts as clauses (De Morgan / comparison complements normalised) -----------------------------------------------

_COMPLEMENT = {ast.LtE: ast.Gt, ast.Lt: ast.GtE, ast.NotEq: ast.Eq, ast.IsNot: ast.Is, ast.NotIn: ast.In}


def literal(e, pol: bool = True):
    """(text, polarity) of a literal in normal form: `not x` -> (x, False); `a <= b` -> (a > b, False); `a != b` -> (a == b, False)"""
    while isinstance(e, ast.UnaryOp) and isinstance(e.op, ast.Not):
        e, pol = e.operand, not pol
    if isinstance(e, ast.Compare) and len(e.ops) == 1 and type(e.ops[0]) in _COMPLEMENT:
        e = ast.Compare(left=e.left, ops=[_COMPLEMENT[type(e.ops[0])]()], comparators=e.comparators)
        pol = not pol
    return unparse(e), pol


def clauses_at(fa: FuncAnalysis, n: Node):
    """the must-facts at n as clauses (sets of literals of which at least one holds): `a and b` false and `not a or not b`
    true are the same clause {(a, False), (b, False)}; a plain atom is a unit clause"""
    out = []
    for a, p in fa.facts.atoms_at(n):
        neg = False
        while isinstance(a, ast.UnaryOp) and isinstance(a.op, ast.Not):
            a, p = a.operand, not p
        if isinstance(a, ast.BoolOp) and isinstance(a.op, ast.And) and not p:
            out.append(frozenset(literal(v, False) for v in a.values))
        elif isinstance(a, ast.BoolOp) and isinstance(a.op, ast.Or) and p:
            out.append(frozenset(literal(v, True) for v in a.values))
        else:
            out.append(frozenset([literal(a, bool(p))]))
    return out


def path_fact_sets(fa: FuncAnalysis, n: Node, words) -> List[Set[Tuple[str, bool]]]:
    """the facts that hold at n, one set per class of paths reaching it (cfg.PathFacts tracking the atoms that contain
    one of `words`), each merged with the facts that hold on every path; atoms are given as written and in normal form
    (`not x` as (x, False), `a is not b` as (a is b, False))"""
    from .cfg import canonical_atom
    base: Set[Tuple[str, bool]] = set()
    for a, p in fa.facts.atoms_at(n):
        base.add((unparse(a), bool(p)))
        ca, cp = canonical_atom(a, bool(p))
        base.add((unparse(ca), bool(cp)))
    ds = fa.paths_for(tuple(words)).disjuncts_at(n)
    if not ds:
        return [base]
    return [base | {(t, bool(p)) for t, p in d.items()} for d in ds]
