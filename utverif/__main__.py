import argparse
import importlib
import json
import os
import sys
import traceback

from . import REPO_ROOT_DEFAULT
from .model import AnalysisError, Repo
from .report import Run, finish

PROPS = ["C01", "C02", "C04", "C05", "C06", "C07", "C08", "C09", "C10", "C11", "C12", "C13", "C14", "C15",
         "C16", "C17", "C18", "C19", "C20"]


def run_check(prop: str, tier: str, root: str, write: bool = True) -> int:
    try:
        mod = importlib.import_module(f".rules.{prop.lower()}", package=__package__)
    except ModuleNotFoundError:
        print(f"ANALYSIS-ERROR property={prop}: no checker module")
        return 2
    try:
        repo = Repo(root)
        from .lib import set_option_attrs
        set_option_attrs(repo)
        run = Run(prop, tier, repo)
        mod.check(run)
        return finish(run, write=write)
    except AnalysisError as e:
        print(f"ANALYSIS-ERROR property={prop}: {e}")
        return 2
    except Exception:  # a checker bug is not a violation
        traceback.print_exc()
        print(f"ANALYSIS-ERROR property={prop}: internal error in the checker (traceback above)")
        return 2


def main(argv=None):
    ap = argparse.ArgumentParser(prog="utverif")
    sub = ap.add_subparsers(dest="cmd", required=True)
    c = sub.add_parser("check")
    c.add_argument("prop")
    c.add_argument("--tier", default=os.environ.get("VERIF_TIER", "quick"), choices=["quick", "thorough"])
    c.add_argument("--repo", default=os.environ.get("UTVERIF_REPO", REPO_ROOT_DEFAULT))
    c.add_argument("--no-evidence", action="store_true", help="developer runs against scratch copies")
    r = sub.add_parser("replay")
    r.add_argument("path")
    r.add_argument("--repo", default=os.environ.get("UTVERIF_REPO", REPO_ROOT_DEFAULT))
    f = sub.add_parser("fixtures")
    a = sub.add_parser("all")
    a.add_argument("--tier", default="quick", choices=["quick", "thorough"])
    a.add_argument("--repo", default=os.environ.get("UTVERIF_REPO", REPO_ROOT_DEFAULT))
    args = ap.parse_args(argv)

    if args.cmd == "check":
        return run_check(args.prop.upper(), args.tier, args.repo, write=not args.no_evidence)
    if args.cmd == "all":
        worst = 0
        for p in PROPS:
            worst = max(worst, run_check(p, args.tier, args.repo))
        return worst
    if args.cmd == "replay":
        with open(args.path) as fh:
            v = json.load(fh)
        prop = v["property"]
        try:
            mod = importlib.import_module(f".rules.{prop.lower()}", package=__package__)
            repo = Repo(args.repo)
            from .lib import set_option_attrs
            set_option_attrs(repo)
            run = Run(prop, "thorough", repo)
            mod.check(run)
        except AnalysisError as e:
            print(f"ANALYSIS-ERROR property={prop}: {e}")
            return 2
        hit = [x for x in run.violations if x.key == v["key"]]
        if hit:
            x = hit[0]
            print(f"[{x.rule}] {x.loc} {x.where}: {x.message}")
            print(f"VIOLATION property={prop} replay={args.path}")
            return 1
        print(f"replay: the construct {v['key']} no longer violates {v['rule']}")
        return 0
    if args.cmd == "fixtures":
        from .fixtures_run import run_fixtures
        return run_fixtures()
    return 2


if __name__ == "__main__":
    sys.exit(main())
