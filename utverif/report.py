"""Run context: obligations, violations, known findings, evidence files."""
import json
import os
import re
import time
from typing import Dict, List, Optional

from .model import AnalysisError, FuncInfo, norm_stmt, Repo

VERIF_ROOT = os.path.dirname(os.path.dirname(os.path.abspath(__file__)))
EVIDENCE_DIR = os.path.join(VERIF_ROOT, "evidence")
KNOWN_FILE = os.path.join(VERIF_ROOT, "known_findings.json")


def _slug(s: str) -> str:
    return re.sub(r"[^A-Za-z0-9_.-]+", "_", s)[:120]


class Violation:
    def __init__(self, prop, rule, where: str, construct: str, message: str, necessity: str = "",
                 loc: str = "", path: Optional[List[str]] = None):
        self.prop = prop
        self.rule = rule
        self.where = where            # module:qualname
        self.construct = construct    # semantic, line-free description of the offending construct
        self.message = message
        self.necessity = necessity
        self.loc = loc                # file:line (diagnostic only, never part of the key)
        self.path = path or []

    @property
    def key(self) -> str:
        return f"{self.rule}|{self.where}|{self.construct}"

    def to_json(self):
        return {"property": self.prop, "rule": self.rule, "where": self.where, "construct": self.construct,
                "message": self.message, "necessity": self.necessity, "loc": self.loc, "path": self.path,
                "key": self.key}


class Run:
    def __init__(self, prop: str, tier: str, repo: Repo, rule_filter=None):
        self.prop = prop
        self.tier = tier
        self.repo = repo
        self.t0 = time.time()
        self.obligations: List[dict] = []
        self.violations: List[Violation] = []
        self.notes: List[str] = []
        self.functions_analysed = set()
        self.calls = {"resolved": 0, "ambiguous": 0, "unknown": 0}
        self.rules_run: List[str] = []
        self.explanations: List[str] = []
        self.assumptions: List[str] = []
        self.analysis_errors: List[str] = []

    def rule(self, fn, *args, **kw):
        """run one rule; a rule that cannot analyse what it finds (vanished anchor, unknown idiom, floor) is recorded and
        the other rules still run - violations found by them are not lost"""
        try:
            return fn(*args, **kw)
        except AnalysisError as e:
            self.analysis_errors.append(str(e))
            return None

    @property
    def thorough(self):
        return self.tier == "thorough"

    # ---- recording -------------------------------------------------------------------------
    def touch(self, f: FuncInfo):
        self.functions_analysed.add(f.ref)

    def ob(self, rule: str, where, what: str, ok: bool, detail: str = "", nontrivial: bool = True):
        w = where.ref if isinstance(where, FuncInfo) else str(where)
        if isinstance(where, FuncInfo):
            self.touch(where)
        self.obligations.append({"rule": rule, "where": w, "what": what, "verdict": "holds" if ok else "VIOLATED",
                                 "detail": detail, "nontrivial": nontrivial})

    def violate(self, rule: str, where, construct: str, message: str, necessity: str = "", node=None,
                path=None):
        w = where.ref if isinstance(where, FuncInfo) else str(where)
        loc = ""
        if isinstance(where, FuncInfo):
            loc = where.loc(node)
            self.touch(where)
        v = Violation(self.prop, rule, w, construct, message, necessity, loc, path)
        if not any(x.key == v.key for x in self.violations):
            self.violations.append(v)
        return v

    def check(self, rule: str, where, what: str, ok: bool, construct: str = None, message: str = None,
              necessity: str = "", node=None, detail: str = ""):
        """record an obligation; if it fails also record the violation"""
        self.ob(rule, where, what, ok, detail)
        if not ok:
            self.violate(rule, where, construct or what, message or f"obligation failed: {what}", necessity, node)
        return ok

    def floor(self, rule: str, what: str, count: int, minimum: int):
        if count is None:
            return          # the rule that was to produce the count already failed (recorded)
        if count < minimum:
            raise AnalysisError(f"{rule}: instance floor not met for {what}: found {count}, need >= {minimum} "
                                f"(the rule would pass vacuously)")
        self.notes.append(f"{rule}: {what}: {count} instance(s) (floor {minimum})")

    def explain(self, text: str):
        self.explanations.append(text)

    def assume(self, text: str):
        if text not in self.assumptions:
            self.assumptions.append(text)


# ---- known findings ------------------------------------------------------------------------------

def load_known() -> dict:
    if not os.path.exists(KNOWN_FILE):
        return {"open": [], "fixed": []}
    with open(KNOWN_FILE) as f:
        data = json.load(f)
    data.setdefault("open", [])
    data.setdefault("fixed", [])
    return data


def match_known(v: Violation, known: dict) -> Optional[dict]:
    for e in known["open"]:
        if e.get("property") != v.prop or e.get("rule") != v.rule:
            continue
        if e.get("where") != v.where:
            continue
        if e.get("construct") != v.construct:
            continue
        return e
    return None


def finish(run: Run, write: bool = True) -> int:
    """write evidence, print verdict lines, return the exit code"""
    known = load_known()
    os.makedirs(EVIDENCE_DIR, exist_ok=True)
    new, listed = [], []
    for v in run.violations:
        e = match_known(v, known)
        if e is not None:
            listed.append((v, e))
        else:
            new.append(v)
    vdir = os.path.join(EVIDENCE_DIR, "violations", run.prop)
    if not write:
        for v, e in listed:
            print(f"KNOWN-FINDING: property={run.prop} {e.get('id', '')} {v.rule} {v.where}: {e.get('what_fails', v.message)}")
        for v in new:
            print(f"[{v.rule}] {v.loc} {v.where}: {v.message}")
            print(f"VIOLATION property={run.prop} replay=<not written: --no-evidence>")
        for e in run.analysis_errors:
            print(f"ANALYSIS-ERROR property={run.prop}: {e}")
        print(f"{run.prop} [{run.tier}]: {len(run.obligations)} obligations, {len(new)} new violation(s) (no evidence written)")
        return 1 if new else (2 if run.analysis_errors else 0)
    if os.path.isdir(vdir):
        for fn in os.listdir(vdir):
            try:
                os.remove(os.path.join(vdir, fn))
            except OSError:
                pass
    for v, e in listed:
        print(f"KNOWN-FINDING: property={run.prop} {e.get('id', '')} {v.rule} {v.where}: {e.get('what_fails', v.message)}")
    replay_paths = []
    for v in new:
        os.makedirs(vdir, exist_ok=True)
        p = os.path.join(vdir, _slug(v.key) + ".json")
        with open(p, "w") as f:
            json.dump(v.to_json(), f, indent=1)
        replay_paths.append(p)
        print(f"[{v.rule}] {v.loc} {v.where}: {v.message}")
        if v.necessity:
            print(f"    why it matters: {v.necessity}")
        for step in v.path:
            print(f"    path: {step}")
        print(f"VIOLATION property={run.prop} replay={p}")

    obs = run.obligations
    discharged = sum(1 for o in obs if o["verdict"] == "holds")
    distinct = len({(o["rule"], o["where"], o["what"]) for o in obs if o["nontrivial"]})
    samples = []
    seen_rules = {}
    for o in obs:
        k = o["rule"]
        if seen_rules.get(k, 0) < 4:
            seen_rules[k] = seen_rules.get(k, 0) + 1
            samples.append({k2: o[k2] for k2 in ("rule", "where", "what", "verdict", "detail")})
    failing = [o for o in obs if o["verdict"] != "holds"]
    for o in failing[:20]:
        samples.append({k2: o[k2] for k2 in ("rule", "where", "what", "verdict", "detail")})
    ev = {
        "property_id": run.prop,
        "tier": run.tier,
        "seed": int(os.environ.get("VERIF_SEED", "0") or 0),
        "level": "other",
        "coverage": {
            "explanation": " ".join(run.explanations) or "static rules over the source of /repo",
            "obligations": len(obs),
            "discharged": discharged,
            "evaluations": max(len(obs), 1),
            "distinct_nontrivial": distinct,
            "rule": "each obligation is one (rule, construct) instance enumerated from /repo's current source; "
                    "non-trivial = the rule had to take a decision about an existing construct (not a vacuous "
                    "match); distinct = different (rule, function, construct) triples",
            "samples": samples,
            "rules": sorted(set(run.rules_run)),
            "functions_analysed": len(run.functions_analysed),
            "functions": sorted(run.functions_analysed)[:80],
            "instance_counts": run.notes,
            "known_findings": [{"id": e.get("id"), "rule": v.rule, "where": v.where, "construct": v.construct}
                               for v, e in listed],
            "new_violations": [v.to_json() for v in new],
            "exhaustive": not run.analysis_errors,
            "analysis_errors": run.analysis_errors,
            "repo_digest": run.repo.digest,
        },
        "assumptions": run.assumptions or [
            "Python's ast module parses the source as CPython would",
            "the checker's CFG/dataflow engine (utverif/cfg.py) is sound for the statement kinds used",
        ],
        "wall_s": round(time.time() - run.t0, 3),
        "violations": len(new),
    }
    with open(os.path.join(EVIDENCE_DIR, f"{run.prop}.json"), "w") as f:
        json.dump(ev, f, indent=1)
    for e in run.analysis_errors:
        print(f"ANALYSIS-ERROR property={run.prop}: {e}")
    print(f"{run.prop} [{run.tier}]: {len(obs)} obligations, {discharged} discharged, "
          f"{len(listed)} known finding(s), {len(new)} new violation(s), "
          f"{len(run.functions_analysed)} functions, {ev['wall_s']}s")
    return 1 if new else (2 if run.analysis_errors else 0)
