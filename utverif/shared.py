"""Receiver-aware call graph with lock regions, and the inventory of writes to state shared between calls / threads.

Used by C19 (cross-call state) and C20 (unsynchronised compound mutation).  Pure ast; nothing is executed.

Resolution of `recv.m(...)`:
  self / cls / mcs      -> definitions of m in the enclosing class's hierarchy: first one upwards plus overrides below
  super()               -> first definition upwards, skipping the own class
  a hinted variable     -> the hinted class family (table RECEIVER_HINTS: the repo's naming conventions, confirmed by reading)
  otherwise             -> every repo method named m (sound over-approximation), unless m is part of the builtin
                           container / string API and no repo class but dict-subclasses define it
Plain `f(...)`          -> nested function, module function (imports followed), or a constructor call (edge kind "ctor")
"""
import ast
from typing import Dict, Iterable, List, Optional, Set, Tuple

from .cfg import analysis
from .model import AnalysisError, ClassInfo, FuncInfo, FuncNode, Repo, call_attr, dotted, unparse, walk_shallow
from .fold import resolve_module

RECEIVER_HINTS = {
    "field": "ParserField", "dep_field": "ParserField", "f": None, "parser": "BaseParser", "context": "RuntimeContext",
    "new_context": "RuntimeContext", "arg_context": "RuntimeContext", "options": "Options", "transformer": "TypeTransformer",
    "registry": "TypeRegistry", "encoder_registry": "TypeRegistry",
}
BUILTIN_API = set(dir(dict)) | set(dir(list)) | set(dir(set)) | set(dir(str)) | set(dir(tuple)) | {"popleft", "appendleft"}
MUTATORS = {"pop", "popitem", "clear", "update", "setdefault", "append", "extend", "insert", "remove", "sort",
            "reverse", "add", "discard", "__setitem__", "__delitem__", "appendleft", "popleft"}


def class_of(f: FuncInfo) -> Optional[ClassInfo]:
    p = f
    while p is not None:
        if p.cls is not None:
            return p.cls
        p = p.parent
    return None


class Hierarchy:
    def __init__(self, repo: Repo):
        self.repo = repo
        self.by_name: Dict[str, List[ClassInfo]] = {}
        for m in repo.modules.values():
            for c in m.classes.values():
                self.by_name.setdefault(c.name, []).append(c)
        self._up: Dict[str, List[ClassInfo]] = {}
        self._down: Dict[str, List[ClassInfo]] = {}

    def bases(self, c: ClassInfo) -> List[ClassInfo]:
        out = []
        for b in c.base_names:
            bn = b.split(".")[-1].split("[")[0]
            for k in self.by_name.get(bn, []):
                out.append(k)
        # metaclass=... keyword: methods of the metaclass apply to `cls` receivers of instances, not modelled here
        return out

    def up(self, c: ClassInfo) -> List[ClassInfo]:
        if c.ref in self._up:
            return self._up[c.ref]
        seen, order, stack = set(), [], [c]
        while stack:
            k = stack.pop(0)
            if k.ref in seen:
                continue
            seen.add(k.ref)
            order.append(k)
            stack.extend(self.bases(k))
        self._up[c.ref] = order
        return order

    def down(self, c: ClassInfo) -> List[ClassInfo]:
        if c.ref in self._down:
            return self._down[c.ref]
        out = []
        for lst in self.by_name.values():
            for k in lst:
                if k is not c and any(x is c for x in self.up(k)):
                    out.append(k)
        self._down[c.ref] = out
        return out

    def family(self, name: str) -> List[ClassInfo]:
        out = []
        for c in self.by_name.get(name, []):
            out += self.up(c) + self.down(c)
        seen, res = set(), []
        for c in out:
            if c.ref not in seen:
                seen.add(c.ref)
                res.append(c)
        return res

    def is_subclass_of(self, c: ClassInfo, name: str) -> bool:
        return any(k.name == name for k in self.up(c)) or name in [b.split(".")[-1] for k in self.up(c) for b in k.base_names]


# ---- locks -----------------------------------------------------------------------------------------

def lock_objects(repo: Repo) -> Set[str]:
    """expressions that denote lock objects: module names / self attributes assigned threading.(R)Lock()"""
    out = set()
    for m in repo.modules.values():
        for name, v in m.assigns.items():
            if isinstance(v, ast.Call) and (call_attr(v) in ("Lock", "RLock")):
                out.add(name)
        for f in m.functions.values():
            if f.name != "__init__":
                continue
            for st in walk_shallow(f.node):
                if isinstance(st, ast.Assign) and isinstance(st.value, ast.Call) and call_attr(st.value) in ("Lock", "RLock"):
                    for t in st.targets:
                        d = dotted(t)
                        if d:
                            out.add(d)
    return out


def lock_withs(f: FuncInfo, locks: Set[str]) -> List[ast.With]:
    out = []
    for st in walk_shallow(f.node):
        if isinstance(st, (ast.With, ast.AsyncWith)):
            for it in st.items:
                d = dotted(it.context_expr)
                if d and (d in locks or d.split(".")[-1] in {l.split(".")[-1] for l in locks}):
                    out.append(st)
    return out


def lexically_locked(f: FuncInfo, node: ast.AST, locks: Set[str]) -> Optional[str]:
    """name of the lock whose `with` body lexically contains node (within f), else None"""
    for w in lock_withs(f, locks):
        for st in w.body:
            for x in walk_shallow(st):
                if x is node:
                    return dotted(w.items[0].context_expr)
    return None


# ---- call graph --------------------------------------------------------------------------------------

_OPERATOR_METHODS = {
    ast.BitAnd: ("__and__", "__rand__", "__iand__"), ast.BitOr: ("__or__", "__ror__", "__ior__"),
    ast.BitXor: ("__xor__", "__rxor__", "__ixor__"),
}


class Edge:
    __slots__ = ("caller", "call", "callee", "kind", "lock")

    def __init__(self, caller, call, callee, kind, lock):
        self.caller = caller
        self.call = call
        self.callee = callee
        self.kind = kind      # "call" | "ctor"
        self.lock = lock      # lock name if the call site is lexically inside `with <lock>`


class CallGraph:
    def __init__(self, repo: Repo):
        self.repo = repo
        self.h = Hierarchy(repo)
        self.locks = lock_objects(repo)
        self.methods: Dict[str, List[FuncInfo]] = {}
        for f in repo.all_functions():
            if f.cls is not None:
                self.methods.setdefault(f.name, []).append(f)
        self.out: Dict[str, List[Edge]] = {}
        self.inc: Dict[str, List[Edge]] = {}
        self.stats = {"resolved": 0, "ambiguous": 0, "unknown": 0}
        for f in repo.all_functions():
            self._edges_of(f)

    # -- resolution -----------------------------------------------------------------------------------
    def _method_in(self, classes: Iterable[ClassInfo], name: str) -> List[FuncInfo]:
        out = []
        for c in classes:
            if name in c.methods:
                out.append(c.methods[name])
        return out

    def _self_call(self, caller: FuncInfo, name: str, skip_own=False) -> List[FuncInfo]:
        c = class_of(caller)
        if c is None:
            return []
        ups = self.h.up(c)
        res = []
        for k in ups:
            if skip_own and k is c:
                continue
            if name in k.methods:
                res.append(k.methods[name])
                break
        if not skip_own:
            for k in self.h.down(c):
                if name in k.methods:
                    res.append(k.methods[name])
        return res

    def _name_target(self, caller: FuncInfo, name: str):
        """plain `name(...)`: ('call', [funcs]) or ('ctor', [__init__ funcs]) or (None, [])"""
        p = caller
        while p is not None:
            if name in p.children:
                return "call", [p.children[name]]
            p = p.parent
        mod = caller.module
        if name in ("cls", "self.__class__"):
            c = class_of(caller)
            if c is not None:
                return "ctor", self._ctor(c)
        if name in mod.functions and mod.functions[name].cls is None and mod.functions[name].parent is None:
            return "call", [mod.functions[name]]
        if name in mod.classes:
            return "ctor", self._ctor(mod.classes[name])
        if name in mod.imports:
            origin = resolve_module(self.repo, mod, mod.imports[name])
            if origin and "." in origin:
                m2, attr = origin.rsplit(".", 1)
                # follow one re-export hop through package __init__
                for _ in range(3):
                    if m2 in self.repo.modules:
                        mm = self.repo.modules[m2]
                        if attr in mm.functions and mm.functions[attr].cls is None:
                            return "call", [mm.functions[attr]]
                        if attr in mm.classes:
                            return "ctor", self._ctor(mm.classes[attr])
                        if attr in mm.imports:
                            o2 = resolve_module(self.repo, mm, mm.imports[attr])
                            if o2 and "." in o2:
                                m2, attr = o2.rsplit(".", 1)
                                continue
                    break
        return None, []

    def _ctor(self, c: ClassInfo) -> List[FuncInfo]:
        res = []
        for nm in ("__init__", "__new__"):
            for k in self.h.up(c):
                if nm in k.methods:
                    res.append(k.methods[nm])
                    break
        return res

    def resolve(self, caller: FuncInfo, call: ast.Call) -> Tuple[str, List[FuncInfo]]:
        f = call.func
        if isinstance(f, ast.Name):
            return self._name_target(caller, f.id)
        if not isinstance(f, ast.Attribute):
            return None, []
        name = f.attr
        recv = f.value
        if isinstance(recv, ast.Name) and recv.id in ("self", "cls", "mcs", "_obj_self"):
            r = self._self_call(caller, name)
            if r:
                return "call", r
            return None, []
        if isinstance(recv, ast.Call) and isinstance(recv.func, ast.Name) and recv.func.id == "super":
            return "call", self._self_call(caller, name, skip_own=True)
        cands = self.methods.get(name, [])
        if not cands:
            return None, []
        hint = None
        if isinstance(recv, ast.Name):
            hint = RECEIVER_HINTS.get(recv.id) or self._local_hint(caller, recv.id)
            # a class referenced by name: `Rule.annotate(...)`, `LogicalType.any_of(...)`
            if hint is None and recv.id in self.h.by_name:
                hint = recv.id
        elif isinstance(recv, ast.Attribute):
            hint = {"transformer": "TypeTransformer", "options": "Options", "context": "RuntimeContext",
                    "registry": "TypeRegistry", "__parser__": "BaseParser", "parser": "BaseParser",
                    "rule_cls": "Rule", "field": None}.get(recv.attr)
        if hint:
            fam = self.h.family(hint)
            r = self._method_in(fam, name)
            if r:
                return "call", r
        if name in BUILTIN_API:
            # an unknown receiver with a container/str method name: a builtin object unless only dict-subclass code
            return None, []
        return "call", cands

    ATTR_HINTS = {"transformer": "TypeTransformer", "options": "Options", "context": "RuntimeContext",
                  "registry": "TypeRegistry", "__parser__": "BaseParser", "parser": "BaseParser", "rule_cls": "Rule"}

    def _local_hint(self, caller: FuncInfo, name: str) -> Optional[str]:
        """the class family of a local, from the function's own text (whatever the local is called): an
        `isinstance(<name>, Class)` test, an annotation `<name>: Class`, or a binding from `<x>.__parser__` / `.options` /
        `.transformer` / `.context` (also through getattr / .get with that attribute name)"""
        cache = self.__dict__.setdefault("_hint_cache", {})
        key = (caller.ref, name)
        if key in cache:
            return cache[key]
        hint = None
        for x in walk_shallow(caller.node):
            if isinstance(x, ast.Call) and isinstance(x.func, ast.Name) and x.func.id == "isinstance" and len(x.args) == 2 \
                    and isinstance(x.args[0], ast.Name) and x.args[0].id == name:
                cands = x.args[1].elts if isinstance(x.args[1], ast.Tuple) else [x.args[1]]
                for c in cands:
                    nm = unparse(c).split(".")[-1]
                    if nm in self.h.by_name:
                        hint = nm
            elif isinstance(x, ast.AnnAssign) and isinstance(x.target, ast.Name) and x.target.id == name:
                nm = unparse(x.annotation).strip("'\"").split(".")[-1]
                if nm in self.h.by_name:
                    hint = nm
            elif isinstance(x, ast.Assign) and any(isinstance(t, ast.Name) and t.id == name for t in x.targets) and hint is None:
                v = x.value
                if isinstance(v, ast.Attribute) and v.attr in self.ATTR_HINTS:
                    hint = self.ATTR_HINTS[v.attr]
                elif isinstance(v, ast.Call):
                    consts = [a.value for a in v.args if isinstance(a, ast.Constant) and isinstance(a.value, str)]
                    for c in consts:
                        if c in self.ATTR_HINTS:
                            hint = self.ATTR_HINTS[c]
        cache[key] = hint
        return hint

    def _edges_of(self, f: FuncInfo):
        lst = self.out.setdefault(f.ref, [])
        body_nodes = []
        for st in f.node.body:          # decorators and argument defaults run at definition time, not at call time
            body_nodes.extend(walk_shallow(st) if not isinstance(st, FuncNode + (ast.ClassDef,)) else [])
        for sub in body_nodes:
            if not isinstance(sub, ast.Call):
                continue
            kind, callees = self.resolve(f, sub)
            if not callees:
                self.stats["unknown"] += 1
                continue
            self.stats["resolved" if len(callees) == 1 else "ambiguous"] += 1
            lock = lexically_locked(f, sub, self.locks) if self.locks else None
            for g in callees:
                e = Edge(f, sub, g, kind, lock)
                lst.append(e)
                self.inc.setdefault(g.ref, []).append(e)
        # binary / augmented / unary operators on the library's own objects run the operator methods (round 8: a memo
        # inside Options.__and__ was out of reach of every entry because `a & b` was no edge); resolved by name over
        # every class of the repo that defines the method - an over-approximation, as for ambiguous method calls
        for sub in body_nodes:
            names = ()
            if isinstance(sub, (ast.BinOp, ast.AugAssign)):
                names = _OPERATOR_METHODS.get(type(sub.op), ())
            elif isinstance(sub, ast.UnaryOp) and isinstance(sub.op, ast.Invert):
                names = ("__invert__",)
            for nm in names:
                for g in self.methods.get(nm, []):
                    if any(k.name == "type" or "type" in [b.split(".")[-1] for b in k.base_names] for k in self.h.up(g.cls)):
                        continue    # operators of metaclasses combine *types* (declaration time), not run-time objects
                    e = Edge(f, None, g, "call", lexically_locked(f, sub, self.locks) if self.locks else None)
                    lst.append(e)
                    self.inc.setdefault(g.ref, []).append(e)
        # reading `self.<name>` where <name> is a property / cached_property of the hierarchy runs that getter
        c0 = class_of(f)
        if c0 is not None:
            for sub in body_nodes:
                if isinstance(sub, ast.Attribute) and isinstance(sub.ctx, ast.Load) and isinstance(sub.value, ast.Name) \
                        and sub.value.id in ("self", "cls"):
                    for g in self._self_call(f, sub.attr):
                        if any(unparse(d).split(".")[-1] in ("property", "cached_property") for d in g.node.decorator_list):
                            e = Edge(f, None, g, "call", lexically_locked(f, sub, self.locks) if self.locks else None)
                            lst.append(e)
                            self.inc.setdefault(g.ref, []).append(e)
        # nested functions are reachable from their definer (closures returned / registered as callbacks)
        for ch in f.children.values():
            e = Edge(f, None, ch, "call", None)
            lst.append(e)
            self.inc.setdefault(ch.ref, []).append(e)

    # -- reachability ---------------------------------------------------------------------------------
    def reachable(self, entries: Iterable[FuncInfo], cut_locked=True, cut_ctor=True) -> Dict[str, List[str]]:
        """functions reachable from entries without passing a lock region (and without entering constructors);
        value = one witness path of refs"""
        seen: Dict[str, List[str]] = {}
        stack = [(e, [e.ref]) for e in entries]
        while stack:
            f, path = stack.pop()
            if f.ref in seen:
                continue
            seen[f.ref] = path
            for e in self.out.get(f.ref, []):
                if cut_locked and e.lock:
                    continue
                if cut_ctor and e.kind == "ctor":
                    continue
                if e.callee.ref not in seen:
                    stack.append((e.callee, path + [e.callee.ref]))
        return seen


_CG: Dict[int, CallGraph] = {}


def callgraph(repo: Repo) -> CallGraph:
    g = _CG.get(id(repo))
    if g is None:
        g = CallGraph(repo)
        _CG[id(repo)] = g
    return g


# ---- shared writes -----------------------------------------------------------------------------------

class Write:
    __slots__ = ("f", "node", "target", "attr", "how", "stmt")

    def __init__(self, f, node, target, attr, how, stmt):
        self.f = f
        self.node = node        # ast node of the store / mutator call
        self.target = target    # text of the written object, e.g. "self.forward_refs", "ref", "__parsers__"
        self.attr = attr        # attribute / global name written or mutated
        self.how = how          # "assign" | "aug" | "del" | "setattr" | mutator name | "subscript"
        self.stmt = stmt

    @property
    def text(self):
        return " ".join(unparse(self.stmt if self.stmt is not None else self.node).split())[:100]


def _root_name(e) -> Optional[str]:
    while isinstance(e, (ast.Attribute, ast.Subscript)):
        e = e.value
    return e.id if isinstance(e, ast.Name) else None


def _alias_of_attr(fa, stmt_or_node, base):
    """`memo = cls._memo; memo[k] = v`: the attribute expression a local container name is an alias of (all its
    definitions are plain attribute loads on self / cls), else None"""
    if not (isinstance(base, ast.Name) and base.id in fa.rd.locals and base.id not in fa.f.params):
        return None
    node = None
    for n in fa.cfg.nodes:
        if n.ast is not None and (n.ast is stmt_or_node or any(x is stmt_or_node for x in walk_shallow(n.ast))):
            node = n
            break
    if node is None:
        return None
    defs = [d for d in fa.rd.defs_of(node, base.id) if d is not fa.cfg.entry]
    attrs = []
    for d in defs:
        if d.kind == "stmt" and isinstance(d.ast, ast.Assign) and isinstance(d.ast.value, ast.Attribute) \
                and isinstance(d.ast.value.value, ast.Name) and d.ast.value.value.id in ("self", "cls", "mcs"):
            attrs.append(d.ast.value)
        else:
            return None
    return attrs[0] if attrs else None


def writes_in(f: FuncInfo, module_globals: Set[str]) -> List[Write]:
    """stores whose target is not a plain local: attribute stores, subscript stores / mutator calls on attributes of
    non-local objects and on module globals, setattr/delattr, `global` rebinding"""
    out: List[Write] = []
    fa = analysis(f)
    local_names = fa.rd.locals
    declared_global = set()
    for st in walk_shallow(f.node):
        if isinstance(st, ast.Global):
            declared_global.update(st.names)

    def tgt(t, stmt, how):
        if isinstance(t, ast.Attribute):
            out.append(Write(f, t, unparse(t.value), t.attr, how, stmt))
        elif isinstance(t, ast.Subscript):
            base = t.value
            alias = _alias_of_attr(fa, stmt, base)
            if isinstance(base, ast.Attribute):
                out.append(Write(f, t, unparse(base.value), base.attr, "subscript", stmt))
            elif alias is not None:
                out.append(Write(f, t, unparse(alias.value), alias.attr, "subscript", stmt))
            elif isinstance(base, ast.Name) and (base.id in module_globals and base.id not in local_names
                                                 or base.id in declared_global):
                out.append(Write(f, t, "<module>", base.id, "subscript", stmt))
        elif isinstance(t, ast.Name) and t.id in declared_global:
            out.append(Write(f, t, "<module>", t.id, how, stmt))
        elif isinstance(t, (ast.Tuple, ast.List)):
            for e in t.elts:
                tgt(e, stmt, how)
        elif isinstance(t, ast.Starred):
            tgt(t.value, stmt, how)

    for st in walk_shallow(f.node):
        if isinstance(st, ast.Assign):
            for t in st.targets:
                tgt(t, st, "assign")
        elif isinstance(st, ast.AnnAssign) and st.value is not None:
            tgt(st.target, st, "assign")
        elif isinstance(st, ast.AugAssign):
            tgt(st.target, st, "aug")
        elif isinstance(st, ast.Delete):
            for t in st.targets:
                tgt(t, st, "del")
        elif isinstance(st, ast.Call):
            nm = call_attr(st)
            if isinstance(st.func, ast.Name) and nm in ("setattr", "delattr") and len(st.args) >= 2:
                a = st.args[1]
                out.append(Write(f, st, unparse(st.args[0]), a.value if isinstance(a, ast.Constant) else unparse(a),
                                 "setattr", st))
            elif isinstance(st.func, ast.Attribute) and nm in MUTATORS:
                base = st.func.value
                alias = _alias_of_attr(fa, st, base)
                if isinstance(base, ast.Attribute):
                    out.append(Write(f, st, unparse(base.value), base.attr, nm, st))
                elif alias is not None:
                    out.append(Write(f, st, unparse(alias.value), alias.attr, nm, st))
                elif isinstance(base, ast.Name) and (base.id in module_globals and base.id not in local_names
                                                     or base.id in declared_global):
                    out.append(Write(f, st, "<module>", base.id, nm, st))
    return out
